#!/usr/bin/env python
"""Command line of the simulator.

  cli.py check <id> [--tier quick|thorough] [--runs N]
  cli.py replay <file>
  cli.py one <id> <index> [--tier T]      run a single index and print its event log
  cli.py selftest determinism|sensitivity ...   (see sim/selftest.py)

Honours VERIF_SEED, VERIF_TIER, VERIF_REPO, VERIF_WORKERS, VERIF_RUNS.
Exit status: 0 property held on everything explored; 1 violation (VIOLATION line printed);
2 harness error / timeout (never 0).
"""

import json
import os
import sys

VERIF_DIR = os.path.dirname(os.path.dirname(os.path.abspath(__file__)))
if VERIF_DIR not in sys.path:
    sys.path.insert(0, VERIF_DIR)
# drop the script directory so that modules are only ever loaded as sim.<name>
sys.path[:] = [p for p in sys.path if os.path.abspath(p or ".") != os.path.join(VERIF_DIR, "sim")]


def main(argv):
    if os.environ.get("PYTHONHASHSEED") is None:
        # fixed hash seed: a run is a function of (VERIF_SEED, code) only.  (The determinism
        # self-test deliberately re-runs under other hash seeds and compares digests.)
        os.environ["PYTHONHASHSEED"] = "0"
        os.execv(sys.executable, [sys.executable] + sys.argv)
    from sim import core

    core.ensure_repo_on_path()
    if len(argv) < 1:
        print(__doc__)
        return 2
    cmd = argv[0]
    args = argv[1:]

    def opt(name, default=None):
        if name in args:
            i = args.index(name)
            v = args[i + 1]
            del args[i : i + 2]
            return v
        return default

    try:
        if cmd == "check":
            tier = opt("--tier", os.environ.get("VERIF_TIER", "quick"))
            runs = opt("--runs")
            seed = int(os.environ.get("VERIF_SEED", "0") or 0)
            return core.check(args[0], tier, seed, n_runs=int(runs) if runs else None)
        if cmd == "replay":
            from sim import registry

            with open(args[0]) as f:
                body = json.load(f)
            prop = registry.get(body["property"])
            res = prop.run(body["scenario"])
            kinds = [v["kind"] for v in res.violations]
            print(f"seed={body.get('seed')} property={body['property']} replaying {args[0]}")
            for v in res.violations:
                print(f"  {v['kind']}: {v['message']}")
            if body["kind"] in kinds:
                print(f"VIOLATION property={body['property']} replay={args[0]}")
                same = core.canon(res.events) == core.canon(body.get("event_log"))
                print(f"  event log identical to the recorded one: {same}")
                return 1
            print("replay did not reproduce the recorded violation kind " + body["kind"])
            return 0
        if cmd == "one":
            import random
            from sim import registry

            tier = opt("--tier", "quick")
            seed = int(os.environ.get("VERIF_SEED", "0") or 0)
            prop = registry.get(args[0])
            idx = int(args[1])
            rs = core.run_seed(seed, args[0], idx)
            sc = prop.generate(random.Random(rs), tier, idx)
            sc["seed"] = rs
            sc["index"] = idx
            print(json.dumps(sc, indent=1))
            res = prop.run(sc)
            for e in res.events:
                print(json.dumps(e, default=repr))
            print("violations:", res.violations)
            print("counters:", dict(res.counters))
            return 1 if res.violations else 0
        if cmd == "selftest":
            from sim import selftest

            return selftest.main(args)
    except core.HarnessError as e:
        print(f"HARNESS-ERROR {e}")
        return 2
    print(__doc__)
    return 2


if __name__ == "__main__":
    try:
        code = main(sys.argv[1:])
    except SystemExit:
        raise
    except BaseException:
        import traceback

        traceback.print_exc()
        print("HARNESS-ERROR uncaught exception")
        code = 2
    sys.exit(code)
