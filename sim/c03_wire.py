"""C03 - Sugar-family backends: emitted CSP text and parsed replies are faithful.

Real code: SugarLikeBackend and its five subclasses, _subproc.run_subprocess (non-timeout
path), Solver.find_answer/solve.  Stub: the external solver (peers.SugarPeer) reached through
the ``subprocess`` attribute of cspuz.backend._subproc and through fake pycsugar / enigma_csp /
cspuz_core modules, i.e. the bytes cross the path a deployment uses.

Configurations (one per scenario):
  honest    - the peer solves what it parsed: emission oracle on every call + C01/C02 oracles
              end to end through the named backend.
  scripted  - the peer replies with arbitrary *well-formed, well-typed* content chosen by the
              scenario (reflection oracle): whatever the reply says must be what lands in sol.
  direct    - the backend class is driven directly with sparse / shuffled variable ids.
"""

from __future__ import annotations

import hashlib
import random
import warnings

from sim import core, peers, refsem
from sim.core import RunResult, sub_seed
from sim.c01_session import check_find_answer, _nest, key_arg
from sim.c02_solve import check_solve, expected_facts

ID = "C03"
TIERS = {"quick": 60000, "thorough": 600000}
RULE = (
    "each run = one seeded program (<=6 variables with contiguous or sparse/shuffled ids up to four digits; 10% padded to "
    "11-14 variables; 3% 'bulk' with 40-130 variables and hundreds of constraint lines; 1.2% 'scale' with 300-2600 "
    "variables, all answer keys; domain product <=1024; constraint trees over every DSL operator plus the two native graph "
    "operators on up to 13 vertices with duplicate edges), an answer-key subset, one of the five backend names, a peer "
    "configuration (honest with model-choice policy / scripted arbitrary well-typed in-domain replies; reply line order "
    "java/byid/shuffled; final newline kept or stripped), optionally a second 'shadow' Solver used alternately on the same "
    "backend and a configured solver_timeout, and 1-3 find_answer/solve calls; non-trivial = some call whose text was "
    "compared by denotation on a domain where the posted constraints are neither valid nor unsatisfiable, or a scripted "
    "satisfiable reply reflected into >=1 variable; distinct = distinct event-log SHA-256"    "; 4% of the runs are programs of 12-30 variables whose description is compared with the reference on sampled assignments "
    "(witness, boundary, random) instead of on all of them"
    '; fault injection in one honest scenario out of ten: the external solver dies without a reply at the n-th call of one query, or (timeout + psutil configured) stalls until the deadline; later queries of the same Solver / backend object and of the shadow Solver are checked in full'
)
STATE_MEASURE = "distinct CSP descriptions received by the peer (SHA-256 of the text)"
COMPONENTS = {
    "real": ["cspuz.backend.sugar_like (all five backends)", "cspuz.backend._subproc.run_subprocess (plain path and Popen + deadline path)", "cspuz.solver.Solver.find_answer/solve", "cspuz.expr / constraints (tree construction)"],
    "stub": ["external solver process (subprocess.run/Popen fake, may stall until the deadline)", "psutil (fake)", "pycsugar / enigma_csp / cspuz_core modules (fakes in sys.modules)", "Sugar-dialect reader + evaluator written from sugar_extension/CspuzSugarInterface.java"],
}
ASSUMPTIONS = [
    "the stub's reading of the wire protocol (Sugar CSP syntax, '#' key line, reply formats of CspuzSugarInterface.java) equals the real solvers'; Sugar, csugar and cspuz_core cannot be installed offline",
    "text is compared by denotation over all assignments of the declared domains, never by spelling, order or whitespace",
    "only replies the Java reference could print are sent (LF line ends, every declared variable listed in answer-finder mode, only answer keys listed in deduction mode)",
    "the Popen + deadline path of run_subprocess is exercised with a fake psutil (the package is not installed); on an injected stall the query may raise (the timeout reaches the caller) or return - a return is checked like any other, so a made-up answer is reported and a retry that got a reply is not - which processes get SIGTERM is not part of any listed property",
]

NAMES = ["sugar", "sugar_extended", "csugar", "enigma_csp", "cspuz_core"]
CLASS_OF = {
    "sugar": "SugarBackend",
    "sugar_extended": "SugarExtendedBackend",
    "csugar": "CSugarBackend",
    "enigma_csp": "EnigmaCSPBackend",
    "cspuz_core": "CspuzCoreBackend",
}
ENTRY_OF = {"sugar": "subprocess", "sugar_extended": "subprocess", "csugar": "pycsugar", "enigma_csp": "enigma_csp", "cspuz_core": "cspuz_core"}


def generate_big(rng, tier):
    """Descriptions of programs too large to enumerate (12-30 variables): the peer only replies from
    a script, and the emission oracle compares denotations on sampled assignments (the witness,
    boundary assignments, neighbours of the witness, random ones) instead of on all of them."""
    from sim import c01_session

    big = c01_session.generate_big(rng, tier)
    backend = rng.choice(NAMES)
    decls, cs = big["decls"], big["cs"]
    pins = list(big["pins"])
    for _ in range(24):
        pins.append(refsem.gen_witness(rng, decls))
    # one-hot and one-cold assignments for EVERY boolean (evaluation only, so they are cheap): a wide
    # and / or / count node that loses a single operand differs from the reference only there
    lowest = [False if d["t"] == "b" else d["lo"] for d in decls]
    highest = [True if d["t"] == "b" else d["hi"] for d in decls]
    w = big["pins"][0]
    for i, d in enumerate(decls):
        if d["t"] == "b":
            for base in (lowest, highest, w):
                p = list(base)
                p[i] = not p[i]
                pins.append(p)
    ops = []
    half = max(1, len(cs) // 2)
    if cs[:half]:
        ops.append({"op": "ensure", "cs": cs[:half], "nest": rng.randint(0, 7)})
    if cs[half:]:
        ops.append({"op": "ensure", "cs": cs[half:], "nest": rng.randint(0, 7)})
    ids = [i for i in range(len(decls)) if rng.random() < rng.choice([0.3, 1.0])]
    ops.append({"op": "add_key", "ids": ids, "form": 0})
    ops.append({"op": "find_answer" if backend == "sugar" or rng.random() < 0.4 else "solve"})
    return {
        "prop": ID, "backend": backend, "mode": "scripted", "direct": False, "big": True, "pins": pins,
        "policy": {"name": "lexmin"}, "fmt": {"order": rng.choice(["java", "byid", "shuffled"]), "seed": rng.randrange(1000), "final_newline": rng.random() < 0.7},
        "script_seed": rng.randrange(10**6), "decls": decls, "timeout": None, "psutil": False, "stall": None, "shadow": False,
        "reuse_backend": False, "graph_api": False, "ops": ops,
    }


def generate(rng, tier, index):
    if rng.random() < 0.04:
        return generate_big(rng, tier)
    backend = rng.choice(NAMES)
    mode = rng.choices(["honest", "scripted"], weights=[6, 4])[0]
    direct = rng.random() < 0.3
    sc = {"prop": ID, "backend": backend, "mode": mode, "direct": direct}
    sc["policy"] = {"name": rng.choice(peers.POLICIES), "seed": rng.randrange(1000), "stride": rng.choice([1, 2, 3])}
    sc["fmt"] = {"order": rng.choice(["java", "byid", "shuffled"]), "seed": rng.randrange(1000), "final_newline": rng.random() < 0.7}
    sc["script_seed"] = rng.randrange(10**6)
    bulk = rng.random() < 0.03
    decls = refsem.gen_decls(
        rng,
        max_vars=rng.randint(1, 6),
        cap=1024 if not bulk else 64,
        allow_wide=rng.random() < 0.1,
        pad_to=0 if not bulk else rng.randint(40, 130),
    )
    if not bulk and rng.random() < 0.1:
        decls = refsem.gen_decls(rng, max_vars=rng.randint(2, 5), cap=256, pad_to=rng.randint(11, 14))
    scale = rng.random() < 0.012
    if scale:
        # hundreds to thousands of variables (tiny domain product): long declarations, long key line,
        # long replies, three- and four-digit ids
        decls = refsem.gen_decls(rng, max_vars=rng.randint(2, 5), cap=32, pad_to=rng.choice([300, 900, 1500, 2600]))
    decls = [d if d["t"] == "b" or d["hi"] - d["lo"] < 8 else {"t": "i", "lo": d["lo"], "hi": d["lo"] + 7} for d in decls]
    while refsem.domain_product(decls) > 1024:
        decls.pop()
    sc["decls"] = decls
    sc["timeout"] = rng.choice([None, None, None, 5.0])  # config.solver_timeout; without psutil -> warning + normal path
    sc["psutil"] = rng.random() < 0.5  # a (fake) psutil makes the Popen + deadline path of run_subprocess reachable
    sc["stall"] = rng.choice([None, None, None, 1, 2]) if (sc["timeout"] and sc["psutil"] and mode == "honest") else None
    sc["shadow"] = rng.random() < 0.25  # a second Solver on the same backend, used alternately
    sc["reuse_backend"] = rng.random() < 0.5  # direct configuration: query the same backend object repeatedly
    sc["graph_api"] = rng.random() < 0.5  # top-level native graph constraints go through cspuz.graph's public functions
    if direct:
        span = rng.choice([3 * len(decls) + 3, 3 * len(decls) + 3, 150, 1200])
        pool = rng.sample(range(0, max(span, len(decls) + 1)), len(decls))
        if rng.random() < 0.5:
            pool.sort()
        sc["ids"] = pool
    witness = refsem.gen_witness(rng, decls) if rng.random() < 0.7 else None
    budget_hi = rng.choice([2, 4, 8, 14, 20])
    ops = []
    keys = set()
    n_rounds = rng.choice([1, 1, 2, 3])
    single = rng.random() < 0.6  # majority: exactly one constraint so that conjunction equality is not vacuous
    for rnd in range(n_rounds):
        g = refsem.Gen(rng, decls, graph_nodes=rng.random() < 0.35)
        g.big_graphs = True
        n_ens = (1 if rnd == 0 else 0) if single else rng.choice([0, 1, 1, 2])
        if bulk and rnd == 0:
            # many tiny constraints: the description gets long (hundreds of lines)
            for _ in range(rng.randint(2, 6)):
                cs = [refsem.gen_constraint(rng, g, rng.randint(1, 3), witness) for _ in range(rng.randint(20, 60))]
                ops.append({"op": "ensure", "cs": cs, "nest": rng.randint(0, 7)})
        for _ in range(n_ens):
            cs = [refsem.gen_constraint(rng, g, rng.randint(1, budget_hi), witness) for _ in range(1 if single else rng.choice([1, 1, 2, 3]))]
            ops.append({"op": "ensure", "cs": cs, "nest": rng.randint(0, 7)})
        p_key = rng.choice([0.0, 0.5, 1.0]) if not scale else 1.0
        ids = [i for i in range(len(decls)) if i not in keys and rng.random() < p_key]
        if ids or rng.random() < 0.15:
            rng.shuffle(ids)
            keys.update(ids)
            ops.append({"op": "add_key", "ids": ids, "form": rng.randint(0, 5)})
        if rng.random() < 0.15:
            i = rng.randrange(len(decls))
            ops.append({"op": "scribble", "id": i, "val": rng.choice([None, True, 0, 5])})
        what = rng.choice(["find_answer", "solve", "solve"])
        if mode == "scripted" and backend == "sugar":
            what = "find_answer"  # a scripted always-SAT peer would make the refute loop endless by the peer's own fault
        if scale and backend == "sugar":
            what = "find_answer"  # thousands of keys through a refute loop: any algorithm needs >= one call per key
        ops.append({"op": what})
    sc["ops"] = add_fault(rng, ops) if (mode == "honest" and not scale) else ops
    return sc


def add_fault(rng, ops, p=0.1):
    """Fault injection: in one honest scenario out of ten the external solver dies without a reply
    at the n-th call of one query, and the same Solver (or backend object) is queried again."""
    r = random.Random(rng.random())  # one draw: the rest of the scenario stream is unchanged
    if r.random() >= p:
        return ops
    at = [j for j, o in enumerate(ops) if o["op"] in ("find_answer", "solve")]
    if not at:
        return ops
    j = r.choice(at)
    ops = ops[:j] + [{"op": "arm_fault", "n": r.choice([1, 1, 2, 3])}] + ops[j:]
    if j == at[-1]:
        ops.append(dict(ops[j + 1]))
    return ops


def valid(sc):
    try:
        if sc["backend"] not in NAMES or sc["mode"] not in ("honest", "scripted"):
            return False
        decls = sc["decls"]
        for d in decls:
            if d["t"] == "i" and d["lo"] > d["hi"]:
                return False
        if refsem.domain_product(decls) > 4096 and not sc.get("big"):
            return False
        if sc.get("big") and (sc["mode"] != "scripted" or not sc.get("pins") or any(len(p) != len(decls) for p in sc["pins"])):
            return False
        if sc.get("direct"):
            ids = sc["ids"]
            if len(ids) != len(decls) or len(set(ids)) != len(ids) or any(i < 0 for i in ids):
                return False
        keys = set()
        for op in sc["ops"]:
            k = op["op"]
            if k == "ensure":
                if not all(refsem.valid(c, decls, "B") for c in op["cs"]):
                    return False
            elif k == "add_key":
                for i in op["ids"]:
                    if not 0 <= i < len(decls) or i in keys:
                        return False
                    keys.add(i)
            elif k == "scribble":
                if not 0 <= op["id"] < len(decls):
                    return False
            elif k == "solve":
                if sc["mode"] == "scripted" and sc["backend"] == "sugar":
                    return False
            elif k == "arm_fault":
                if op["n"] < 1 or sc["mode"] != "honest":
                    return False
            elif k != "find_answer":
                return False
        return True
    except (KeyError, TypeError, IndexError):
        return False


# --------------------------------------------------------------------------------------
# scripted replies (reflection-only configuration)
# --------------------------------------------------------------------------------------


def make_script(sc, res, expected_holder):
    seed = sc["script_seed"]
    fmt = sc["fmt"]

    def script(prog, call_no):
        rng = random.Random(sub_seed(seed, "reply", call_no))
        order = fmt.get("order", "java")
        fnl = fmt.get("final_newline", True)
        oseed = sub_seed(fmt.get("seed", 0), call_no)
        sorts = [prog.sort_of[n] for n in prog.names]
        res.hit("reply_order:" + order)
        res.hit("reply_final_newline:" + ("yes" if fnl else "no"))
        if prog.parsed.answer_keys is None:
            if rng.random() < 0.2:
                expected_holder["last"] = ("answer", None)
                res.hit("scripted:unsat")
                return peers.write_answer_reply(prog.names, sorts, None, final_newline=fnl)
            vals = []
            for d in prog.parsed.decls:
                if d[1] == "b":
                    vals.append(rng.random() < 0.5)
                else:
                    vals.append(rng.choice([d[2], d[3], rng.randint(d[2], d[3])]))
            expected_holder["last"] = ("answer", dict(zip(prog.names, vals)))
            res.hit("scripted:sat")
            return peers.write_answer_reply(prog.names, sorts, vals, order, oseed, fnl)
        if rng.random() < 0.2:
            expected_holder["last"] = ("deduce", None)
            res.hit("scripted:unsat")
            return peers.write_deduction_reply(None, prog.sort_of, final_newline=fnl)
        facts = []
        p_list = rng.choice([0.0, 0.5, 0.5, 1.0])
        for k in prog.parsed.answer_keys:
            if rng.random() < p_list:
                idx = prog.index_of[k]
                d = prog.parsed.decls[idx]
                if d[1] == "b":
                    facts.append((k, rng.random() < 0.5))
                else:
                    facts.append((k, rng.choice([d[2], d[3], rng.randint(d[2], d[3])])))
        expected_holder["last"] = ("deduce", dict(facts))
        res.hit("scripted:sat")
        return peers.write_deduction_reply(facts, prog.sort_of, order, oseed, fnl)

    return script


# --------------------------------------------------------------------------------------
# emission oracle
# --------------------------------------------------------------------------------------


def check_emission(res, sc, tag, n_op, entry, text, prog, decls, ids, constraints, keys, what, first_call):
    """what: 'find_answer' | 'solve'.  first_call: the first description of this operation."""
    backend = sc["backend"]
    if isinstance(prog, peers.ProtocolError):
        res.violate("C03/unparseable-description", f"op#{n_op} {what}: the external solver cannot read the description: {prog} [{tag}]")
        return False
    if not text.isascii():
        res.violate("C03/unparseable-description", f"op#{n_op} description is not ASCII [{tag}]")
        return False
    # 1. declarations
    want = sorted(
        (("b%d" % ids[i], "b") if d["t"] == "b" else ("i%d" % ids[i], "i", d["lo"], d["hi"])) for i, d in enumerate(decls)
    )
    got = sorted(prog.parsed.decls)
    if want != got:
        res.violate("C03/declarations-differ", f"op#{n_op} {what}: declared {got} but the Solver holds {want} [{tag}]")
        return False
    # 2. mode line
    deduction = prog.parsed.answer_keys is not None
    expect_deduction = what == "solve" and backend != "sugar"
    if deduction != expect_deduction:
        res.violate(
            "C03/mode-line-unexpected",
            f"op#{n_op} {what} via {backend}: answer-key line {'present' if deduction else 'absent'}, expected {'present' if expect_deduction else 'absent'} [{tag}]",
        )
        return False
    if deduction:
        want_keys = sorted(("b%d" if decls[i]["t"] == "b" else "i%d") % ids[i] for i in keys)
        got_keys = sorted(prog.parsed.answer_keys)
        if want_keys != got_keys:
            res.violate("C03/answer-keys-differ", f"op#{n_op} solve: key line names {got_keys}, registered keys are {want_keys} [{tag}]")
            return False
    # 3. denotation
    name_of_pos = [("b%d" if d["t"] == "b" else "i%d") % ids[i] for i, d in enumerate(decls)]
    wire_pos = [prog.index_of[n] for n in name_of_pos]  # position i of ours -> index in the wire order
    nwire = len(prog.names)
    ref = refsem.compile_pred(constraints)
    try:
        wire = prog.predicate()
    except peers.ProtocolError as e:
        res.violate("C03/unparseable-description", f"op#{n_op} {what}: {e} [{tag}]")
        return False
    import itertools

    n_true = 0
    n_all = 0
    # all assignments of the declared domains - or, for programs too large to enumerate, the sampled ones
    space = [tuple(p) for p in sc["pins"]] if sc.get("big") else itertools.product(*refsem.domains(decls))
    for a in space:
        w = [None] * nwire
        for i, p in enumerate(wire_pos):
            w[p] = a[i]
        try:
            tv = bool(wire(w))
        except Exception as e:
            res.violate("C03/unparseable-description", f"op#{n_op} {what}: evaluating the description failed: {type(e).__name__}: {e} [{tag}]")
            return False
        rv = bool(ref(a))
        n_all += 1
        n_true += rv
        if first_call:
            if tv != rv:
                res.violate(
                    "C03/denotation-differs",
                    f"op#{n_op} {what}: under assignment {list(a)} the description evaluates to {tv} but the posted constraints to {rv} [{tag}]",
                )
                return False
        else:
            if tv and not rv:
                res.violate(
                    "C03/denotation-differs",
                    f"op#{n_op} {what} (re-solve): assignment {list(a)} satisfies the description but not the posted constraints [{tag}]",
                )
                return False
    if first_call and 0 < n_true < n_all:
        res.nontrivial = True
    return True


# --------------------------------------------------------------------------------------
# execution
# --------------------------------------------------------------------------------------


def run(sc) -> RunResult:
    cspuz = core.import_cspuz()
    from cspuz import expr as E
    from cspuz.backend import sugar_like

    res = RunResult()
    backend = sc["backend"]
    mode = sc["mode"]
    direct = bool(sc.get("direct"))
    res.log("start", ID, sc.get("seed"), backend, mode, direct)
    res.hit(f"config:{mode}{':direct' if direct else ''}")
    res.hit("backend:" + backend)
    tag = f"{backend} {mode}{' direct' if direct else ''}"
    decls = sc["decls"]
    ids = sc["ids"] if direct else list(range(len(decls)))
    expected_holder = {}
    peer = peers.SugarPeer(res, policy=sc.get("policy"), fmt=sc.get("fmt"))
    if mode == "scripted":
        peer.script = make_script(sc, res, expected_holder)

    solver = None
    if direct:
        vars_ = [E.BoolVar(ids[i]) if d["t"] == "b" else E.IntVar(ids[i], d["lo"], d["hi"]) for i, d in enumerate(decls)]
    else:
        solver = cspuz.Solver()
        vars_ = [solver.bool_var() if d["t"] == "b" else solver.int_var(d["lo"], d["hi"]) for d in decls]
    built = []  # realised constraints (direct mode)
    direct_be = None
    n_built_sent = 0
    constraints = []
    keys = set()
    saved_cfg = (cspuz.config.backend_path, cspuz.config.solver_timeout)
    cspuz.config.backend_path = None
    cspuz.config.solver_timeout = sc.get("timeout")
    if sc.get("timeout"):
        res.hit("knob:solver_timeout_set_without_psutil")
    shadow = None
    if sc.get("shadow") and mode == "honest":
        shadow = _Shadow(cspuz, E, direct, backend, sugar_like)
        res.hit("perturb:shadow_session_interleaved")
    try:
        with peers.installed_peer(peer, psutil=bool(sc.get("psutil"))) as fake_sub, warnings.catch_warnings():
            warnings.simplefilter("ignore")
            if sc.get("timeout") and sc.get("psutil"):
                res.hit("knob:popen_deadline_path")
            fake_sub.stall_on_call = sc.get("stall")
            pending_fault = None
            for n_op, op in enumerate(sc["ops"]):
                k = op["op"]
                res.steps += 1
                if shadow is not None and k in ("find_answer", "solve"):
                    if not shadow.step(res, sc, peer, n_op, tag, fake_sub.TimeoutExpired):
                        continue
                try:
                    if k == "ensure":
                        b = refsem.Builder(vars_)
                        if not direct and sc.get("graph_api") and any(c[0] in ("gavc", "gdiv") for c in op["cs"]):
                            # native graph constraints posted the way user code posts them: through the
                            # public functions of cspuz.graph with use_graph_primitive=True
                            for c in op["cs"]:
                                if c[0] in ("gavc", "gdiv"):
                                    _post_graph_via_api(cspuz, solver, b, c)
                                    res.hit("native_graph_node_posted_through_graph_api")
                                else:
                                    solver.ensure(b.build(c))
                            exprs = None
                        else:
                            exprs = [b.build(c) for c in op["cs"]]
                        if exprs is None:
                            pass
                        elif direct:
                            built.extend(exprs)
                        else:
                            solver.ensure(*_nest(exprs, op.get("nest", 0)))
                        constraints.extend(op["cs"])
                        for c in op["cs"]:
                            for t in refsem.tags(c):
                                if t in ("gavc", "gdiv"):
                                    res.hit("native_graph_node:" + t)
                    elif k == "add_key":
                        if not direct:
                            solver.add_answer_key(*key_arg(vars_, op["ids"], op.get("form", 0)))
                        keys.update(op["ids"])
                    elif k == "scribble":
                        vars_[op["id"]].sol = op["val"]
                        res.hit("perturb:sol_scribble")
                    elif k == "arm_fault":
                        pending_fault = op["n"]
                        res.log("op", n_op, "arm_fault", op["n"])
                    elif k in ("find_answer", "solve"):
                        n_before = len(peer.received)
                        n_stalls_before = fake_sub.stalls_fired
                        n_faults_before = peer.faults_fired
                        peer.fault_in, pending_fault = pending_fault, None
                        bound = 8 + 3 * sum((2 if decls[i]["t"] == "b" else decls[i]["hi"] - decls[i]["lo"] + 1) for i in keys)
                        peer.calls = 0
                        peer.cap = bound if k == "solve" else 4
                        expected_holder.pop("last", None)
                        try:
                            if direct:
                                if sc.get("reuse_backend") and direct_be is not None:
                                    # the same backend object is queried again: only the constraints posted
                                    # since the last query are added
                                    be = direct_be
                                    new = built[n_built_sent:]
                                    res.hit("perturb:same_backend_object_queried_again")
                                else:
                                    be = getattr(sugar_like, CLASS_OF[backend])(vars_)
                                    new = list(built)
                                if n_op % 2 == 0:
                                    be.add_constraint(list(new))
                                else:
                                    for x in new:
                                        be.add_constraint(x)
                                direct_be = be
                                n_built_sent = len(built)
                                if k == "find_answer":
                                    r = be.solve()
                                else:
                                    try:
                                        r = be.solve_irrefutably([i in keys for i in range(len(vars_))])
                                    except NotImplementedError:
                                        if backend != "sugar":
                                            raise
                                        res.hit("sugar_has_no_deduction_mode")
                                        res.log("op", n_op, k, "not-implemented")
                                        continue
                            elif k == "find_answer":
                                r = solver.find_answer(backend=backend)
                            else:
                                r = solver.solve(backend=backend)
                        except peers.NoReturnWithinBound as e:
                            res.violate("C03/e2e-no-return-within-bound", f"op#{n_op} {k}: {e} [{tag}]")
                            continue
                        except fake_sub.TimeoutExpired:
                            # the injected stall: the caller is told, no answer is made up
                            res.hit("stall:timeout_propagated_to_caller")
                            res.log("op", n_op, k, "timeout")
                            continue
                        except Exception as e:
                            if peer.faults_fired == n_faults_before or isinstance(e, core.HarnessError):
                                raise
                            # the injected death of the external solver reached the caller
                            res.hit("fault:failure_propagated_to_caller")
                            res.log("op", n_op, k, "failed-with-the-solver", type(e).__name__)
                            # (direct configuration: the same backend object may be queried again, as after a stall)
                            continue
                        finally:
                            peer.fault_in = None
                        if peer.faults_fired > n_faults_before:
                            # no well-formed reply was given: the property says nothing about this query
                            res.hit("fault:absorbed_query_returned")
                            res.log("op", n_op, k, "returned-after-solver-failure")
                            continue
                        if fake_sub.stalls_fired > n_stalls_before:
                            # the query returned although one call stalled until the deadline (a retry that got a
                            # reply is fine; a made-up answer is not): checked like any other return
                            res.hit("stall:query_returned_after_a_stalled_call")
                        sols = [v.sol for v in vars_]
                        calls = peer.received[n_before:]
                        res.log("op", n_op, k, r, sols, len(calls))
                        if not calls and fake_sub.stalls_fired > n_stalls_before:
                            res.violate("C03/wrong-return-value", f"op#{n_op} {k} returned {r!r} although the external solver never replied (deadline passed, no further call) [{tag}]")
                            continue
                        if not calls:
                            res.violate("C03/description-not-sent", f"op#{n_op} {k} returned {r!r} without handing a description to the external solver [{tag}]")
                            continue
                        ok = True
                        for j, (entry, text, prog) in enumerate(calls):
                            res.states.add(hashlib.sha256(text.encode()).hexdigest()[:16])
                            if not check_emission(res, sc, tag, n_op, entry, text, prog, decls, ids, constraints, keys, k, j == 0):
                                ok = False
                                break
                        if not ok:
                            continue
                        if mode == "scripted":
                            _check_reflection(res, tag, n_op, k, r, sols, decls, ids, expected_holder.get("last"), keys)
                        else:
                            M = refsem.models(decls, constraints)
                            if k == "find_answer":
                                check_find_answer(res, "C03", tag, decls, constraints, r, sols, n_op, M)
                            else:
                                check_solve(res, "C03", tag, decls, constraints, keys, r, sols, n_op, models_cache=M)
                                # non-key variables are unconstrained by C02; C03 adds: deduction mode lists keys only
                    else:
                        raise core.HarnessError(f"unknown op {k}")
                except core.HarnessError:
                    raise
                except Exception as e:
                    res.violate("C03/unexpected-exception", f"op#{n_op} {k} raised {type(e).__name__}: {str(e)[:200]} [{tag}]")
                    res.log("op", n_op, k, "exception", type(e).__name__)
    finally:
        cspuz.config.backend_path, cspuz.config.solver_timeout = saved_cfg
    return res


def _post_graph_via_api(cspuz, solver, builder, node):
    from cspuz import graph as G

    n, edges = node[1], node[2]
    g = G.Graph(n)
    for u, v in edges:
        g.add_edge(u, v)
    if node[0] == "gavc":
        G.active_vertices_connected(solver, [builder.build(c) for c in node[3]], graph=g, use_graph_primitive=True)
    else:
        G.division_connected_variable_groups_with_borders(
            solver,
            group_size=[None if c is None else builder.build(c) for c in node[3]],
            is_border=[builder.build(c) for c in node[4]],
            graph=g,
            use_graph_primitive=True,
        )


class _Shadow:
    """A second, fixed little program solved through the same backend between the operations of
    the main session: state leaking between backend objects (class-level lists, caches) shows up
    as a wrong description or wrong sol values on either side."""

    DECLS = [{"t": "b"}, {"t": "i", "lo": -1, "hi": 1}, {"t": "b"}]
    CONSTRAINTS = [["or", ["b", 0], ["b", 2], 0], ["le", ["i", 1], ["c", 0], 0], ["imp", ["b", 0], ["eq", ["i", 1], ["c", -1], 0], 0]]

    def __init__(self, cspuz, E, direct, backend, sugar_like):
        self.backend = backend
        self.solver = cspuz.Solver()
        self.vars = [self.solver.bool_var(), self.solver.int_var(-1, 1), self.solver.bool_var()]
        b = refsem.Builder(self.vars)
        self.solver.ensure([b.build(c) for c in self.CONSTRAINTS])
        self.M = refsem.models(self.DECLS, self.CONSTRAINTS)

    def step(self, res, sc, peer, n_op, tag, timeout_exc=()):
        n_before = len(peer.received)
        peer.calls = 0
        peer.cap = 2
        try:
            r = self.solver.find_answer(backend=self.backend)
        except timeout_exc:
            res.hit("stall:timeout_propagated_to_caller")
            return True  # the injected stall hit the shadow session; the main session goes on
        except Exception as e:
            res.violate("C03/unexpected-exception", f"op#{n_op} shadow session find_answer raised {type(e).__name__}: {str(e)[:160]} [{tag}]")
            return False
        sols = [v.sol for v in self.vars]
        for j, (entry, text, prog) in enumerate(peer.received[n_before:]):
            if not check_emission(res, dict(sc, backend=self.backend), tag + " shadow", n_op, entry, text, prog, self.DECLS, [0, 1, 2], self.CONSTRAINTS, set(), "find_answer", j == 0):
                return False
        check_find_answer(res, "C03", tag + " shadow", self.DECLS, self.CONSTRAINTS, r, sols, n_op, self.M)
        return True


def _check_reflection(res, tag, n_op, k, r, sols, decls, ids, last, keys=()):
    if last is None:
        raise core.HarnessError("scripted peer was not consulted")
    kind, content = last
    if content is None:
        res.hit("reflection:unsat")
        if r is not False:
            res.violate("C03/wrong-return-value", f"op#{n_op} {k}: the reply said unsatisfiable but {r!r} was returned [{tag}]")
        return
    if r is not True:
        res.violate("C03/wrong-return-value", f"op#{n_op} {k}: the reply said satisfiable but {r!r} was returned [{tag}]")
        return
    res.hit("reflection:sat")
    any_val = False
    for i, d in enumerate(decls):
        name = ("b%d" if d["t"] == "b" else "i%d") % ids[i]
        want = content.get(name)
        got = sols[i]
        if want is not None:
            any_val = True
        if want is None:
            # an answer key the deduction reply does not list is undecided (C02: None); nothing is
            # required of variables that are not answer keys
            if got is not None and (kind == "answer" or i in keys):
                res.violate("C03/reply-not-reflected", f"op#{n_op} {k}: {name} was not in the reply but sol is {got!r} [{tag}]")
                return
        elif got != want or type(got) is not type(want):
            if got == want:
                res.violate("C03/reply-wrong-type", f"op#{n_op} {k}: reply gave {name}={want!r} but sol is {got!r} of type {type(got).__name__} [{tag}]")
            else:
                res.violate("C03/reply-not-reflected", f"op#{n_op} {k}: reply gave {name}={want!r} but sol is {got!r} [{tag}]")
            return
    if any_val:
        res.nontrivial = True


def shrink_candidates(sc):
    ops = sc["ops"]
    for cand in core.ddmin_list(ops):
        yield dict(sc, ops=cand)
    # drop unreferenced trailing variables
    decls = sc["decls"]
    used = set()
    for op in ops:
        if op["op"] == "ensure":
            for c in op["cs"]:
                used |= {i for _, i in refsem.var_ids(c)}
        elif op["op"] == "add_key":
            used |= set(op["ids"])
        elif op["op"] == "scribble":
            used.add(op["id"])
    if decls and (len(decls) - 1) not in used:
        c = dict(sc, decls=decls[:-1])
        if sc.get("direct"):
            c["ids"] = sc["ids"][:-1]
        if sc.get("big"):
            c["pins"] = [p[:-1] for p in sc["pins"]]
        yield c
    if sc.get("big"):
        for p2 in core.ddmin_list(sc["pins"]):
            if p2:
                yield dict(sc, pins=p2)
    if sc.get("direct"):
        yield dict(sc, direct=False)
        srt = sorted(sc["ids"])
        if srt != sc["ids"]:
            yield dict(sc, ids=srt)
        dense = list(range(len(decls)))
        if dense != sc["ids"]:
            yield dict(sc, ids=dense)
    for n, op in enumerate(ops):
        if op["op"] == "ensure":
            for cs in core.ddmin_list(op["cs"]):
                if cs:
                    yield dict(sc, ops=ops[:n] + [dict(op, cs=cs)] + ops[n + 1 :])
            for j, c in enumerate(op["cs"]):
                for sm in refsem.shrink_ast(c, "B"):
                    yield dict(sc, ops=ops[:n] + [dict(op, cs=op["cs"][:j] + [sm] + op["cs"][j + 1 :])] + ops[n + 1 :])
            if op.get("nest", 0) != 0:
                yield dict(sc, ops=ops[:n] + [dict(op, nest=0)] + ops[n + 1 :])
        elif op["op"] == "add_key":
            for ids in core.ddmin_list(op["ids"]):
                yield dict(sc, ops=ops[:n] + [dict(op, ids=ids)] + ops[n + 1 :])
    for i, d in enumerate(decls):
        if d["t"] == "i":
            for lo in core.shrink_int(d["lo"]):
                if lo <= d["hi"]:
                    yield dict(sc, decls=decls[:i] + [dict(d, lo=lo)] + decls[i + 1 :])
            for hi in core.shrink_int(d["hi"], d["lo"]):
                if hi >= d["lo"]:
                    yield dict(sc, decls=decls[:i] + [dict(d, hi=hi)] + decls[i + 1 :])
    if sc["policy"].get("name") != "lexmin":
        yield dict(sc, policy={"name": "lexmin"})
    if sc["fmt"] != {"order": "java", "final_newline": True}:
        yield dict(sc, fmt={"order": "java", "final_newline": True})
