"""Self tests of the simulator: setup, determinism, sensitivity (mutants / seeded changes)."""

from __future__ import annotations

import glob
import json
import os
import random
import shutil
import subprocess
import sys
import tempfile
import time

from sim import core, registry


def main(args):
    if not args:
        print("selftest setup | determinism [ids...] [--seeds N] | sensitivity [dirs...]")
        return 2
    cmd = args[0]
    if cmd == "setup":
        return setup()
    if cmd == "determinism":
        return determinism(args[1:])
    if cmd == "digests":
        return digests(args[1:])
    if cmd == "c19seq":
        from sim import c19_generator

        core.import_cspuz()
        print(c19_generator.seq_digest(json.load(sys.stdin)))
        return 0
    if cmd == "sensitivity":
        return sensitivity(args[1:])
    if cmd == "noalarm":
        return noalarm(args[1:])
    if cmd == "fixed":
        return fixed()
    print("unknown selftest", cmd)
    return 2


def setup():
    cspuz = core.import_cspuz()
    import z3  # noqa

    print("cspuz from", os.path.dirname(cspuz.__file__), "z3", z3.get_version_string())
    os.makedirs(os.path.join(core.VERIF_DIR, "evidence"), exist_ok=True)
    return 0


# --------------------------------------------------------------------------------------
# determinism: same seed twice in-process, again in fresh interpreters under other hash
# seeds and worker counts; compare run digests
# --------------------------------------------------------------------------------------


def _digest_list(prop_id, master, tier, n):
    prop = registry.get(prop_id)
    out = []
    for i in range(n):
        rs = core.run_seed(master, prop_id, i)
        sc = prop.generate(random.Random(rs), tier, i)
        sc["seed"] = rs
        sc["index"] = i
        res = prop.run(sc)
        out.append(res.digest()[:16])
    return out


def digests(args):
    """Print one digest per run (used by `determinism` in fresh interpreters)."""
    prop_id, master, tier, lo, hi = args[0], int(args[1]), args[2], int(args[3]), int(args[4])
    prop = registry.get(prop_id)
    for i in range(lo, hi):
        rs = core.run_seed(master, prop_id, i)
        sc = prop.generate(random.Random(rs), tier, i)
        sc["seed"] = rs
        sc["index"] = i
        print(i, prop.run(sc).digest()[:16], core.digest(sc)[:16])
    return 0


def _fresh(prop_id, master, tier, lo, hi, hashseed):
    env = dict(os.environ)
    env["PYTHONHASHSEED"] = str(hashseed)
    p = subprocess.run(
        [sys.executable, os.path.join(core.VERIF_DIR, "sim", "cli.py"), "selftest", "digests", prop_id, str(master), tier, str(lo), str(hi)],
        env=env,
        stdout=subprocess.PIPE,
        stderr=subprocess.PIPE,
        timeout=3000,
    )
    if p.returncode != 0:
        raise core.HarnessError(f"fresh interpreter failed: {p.stderr.decode()[-2000:]}")
    return p.stdout.decode().strip().split("\n")


def determinism(args):
    import concurrent.futures

    n = 2000
    if "--seeds" in args:
        i = args.index("--seeds")
        n = int(args[i + 1])
        del args[i : i + 2]
    ids = args or registry.ids()
    master = int(os.environ.get("VERIF_SEED", "0") or 0)
    bad = 0
    for pid in ids:
        t0 = time.time()
        configs = [(16, 0), (16, 12345), (4, 999), (1, 31337)]  # (number of processes, PYTHONHASHSEED)
        outputs = []
        for procs, hs in configs:
            per = (n + procs - 1) // procs
            ranges = [(lo, min(n, lo + per)) for lo in range(0, n, per)]
            with concurrent.futures.ThreadPoolExecutor(max_workers=min(16, len(ranges))) as ex:
                parts = list(ex.map(lambda r: _fresh(pid, master, "quick", r[0], r[1], hs), ranges))
            lines = [ln for part in parts for ln in part]
            outputs.append(lines)
        base = outputs[0]
        ok = True
        for (procs, hs), lines in zip(configs[1:], outputs[1:]):
            if lines != base:
                ok = False
                diffs = [(a, b) for a, b in zip(base, lines) if a != b]
                print(f"NONDETERMINISM property={pid} procs={procs} hashseed={hs}: {len(diffs)} of {n} runs differ; first: {diffs[:2]}")
        # same interpreter twice
        twice_a = _digest_list(pid, master, "quick", min(n, 300))
        twice_b = _digest_list(pid, master, "quick", min(n, 300))
        if twice_a != twice_b:
            ok = False
            print(f"NONDETERMINISM property={pid} same interpreter, second pass differs")
        print(f"determinism property={pid} runs={n} configs={configs} identical={ok} wall={time.time()-t0:.1f}s", flush=True)
        if not ok:
            bad += 1
    return 1 if bad else 0


# --------------------------------------------------------------------------------------
# sensitivity: apply each seeded change / mutant to a scratch copy of the repository and
# require the registered quick check to report a violation
# --------------------------------------------------------------------------------------


def _scratch_copy():
    base = os.environ.get("TMPDIR", "/tmp")
    d = tempfile.mkdtemp(prefix="cspuz-scratch-", dir=base)
    subprocess.run(["git", "-C", core.REPO, "worktree", "prune"], check=False, stdout=subprocess.DEVNULL)
    dst = os.path.join(d, "repo")
    shutil.copytree(core.REPO, dst, ignore=shutil.ignore_patterns(".git", "__pycache__", "*.pyc", "docs"))
    return d, dst


def sensitivity(args):
    """sensitivity [--tier T] [--runs N] <dir-with-patch.diff+meta.json>..."""
    tier = "quick"
    runs = None
    if "--tier" in args:
        i = args.index("--tier")
        tier = args[i + 1]
        del args[i : i + 2]
    if "--runs" in args:
        i = args.index("--runs")
        runs = args[i + 1]
        del args[i : i + 2]
    dirs = args or sorted(glob.glob(os.path.join(core.VERIF_DIR, "seeded", "*"))) + sorted(
        glob.glob(os.path.join(core.VERIF_DIR, "mutants", "*"))
    )
    missed = 0
    rows = []
    for d in dirs:
        patch = os.path.join(d, "patch.diff")
        meta_p = os.path.join(d, "meta.json")
        if not os.path.exists(patch):
            continue
        meta = json.load(open(meta_p)) if os.path.exists(meta_p) else {}
        props = meta.get("properties") or ([meta["property"]] if "property" in meta else [])
        scratch, repo = _scratch_copy()
        try:
            p = subprocess.run(["git", "apply", "--unsafe-paths", "--directory", repo, os.path.abspath(patch)], cwd="/", stderr=subprocess.PIPE)
            if p.returncode != 0:
                p = subprocess.run(["patch", "-p1", "-d", repo, "-i", os.path.abspath(patch)], stdout=subprocess.PIPE, stderr=subprocess.PIPE)
                if p.returncode != 0:
                    print(f"sensitivity {d}: patch does not apply: {p.stderr.decode()[:300]}")
                    missed += 1
                    continue
            for pid in props:
                if os.environ.get("VERIF_ONLY_PROPS") and pid not in os.environ["VERIF_ONLY_PROPS"].split(","):
                    continue
                env = dict(os.environ)
                env["VERIF_REPO"] = repo
                env["VERIF_NO_EVIDENCE"] = "1"
                cmd = [sys.executable, os.path.join(core.VERIF_DIR, "sim", "cli.py"), "check", pid, "--tier", tier]
                if runs:
                    cmd += ["--runs", runs]
                t0 = time.time()
                q = subprocess.run(cmd, env=env, stdout=subprocess.PIPE, stderr=subprocess.STDOUT, timeout=7200)
                out = q.stdout.decode()
                caught = q.returncode == 1 and f"VIOLATION property={pid}" in out
                kinds = sorted({ln.split("kind=")[1].split()[0] for ln in out.split("\n") if ln.strip().startswith("kind=")})
                rows.append((os.path.basename(d), pid, caught, kinds, round(time.time() - t0, 1)))
                print(f"sensitivity {os.path.basename(d)} property={pid} caught={caught} exit={q.returncode} kinds={kinds} wall={time.time()-t0:.1f}s", flush=True)
                if not caught:
                    missed += 1
                    print(out[-1500:])
        finally:
            shutil.rmtree(scratch, ignore_errors=True)
    print(f"sensitivity: {len(rows)} (change, property) pairs, missed {missed}")
    if not args:  # full sweep: keep the table
        with open(os.path.join(core.VERIF_DIR, "SENSITIVITY.txt"), "w") as f:
            f.write(f"# cli.py selftest sensitivity --tier {tier}: every seeded change and hand-written mutant applied to a scratch copy of /repo\n")
            f.write(f"# {len(rows)} (change, property) pairs, missed {missed}\n")
            for name, pid, caught, kinds, wall in rows:
                f.write(f"{name}\t{pid}\tcaught={caught}\t{','.join(kinds)}\t{wall}s\n")
    return 1 if missed else 0


# --------------------------------------------------------------------------------------
# no false alarms: property-preserving changes (legit/<id>/patch.diff) must pass the check
# --------------------------------------------------------------------------------------


def noalarm(args):
    """noalarm [--tier T] [dirs...]: each legit/<id>/patch.diff keeps its property true, so the
    registered check must exit 0 on a scratch copy of /repo with the patch applied."""
    tier = "quick"
    if "--tier" in args:
        i = args.index("--tier")
        tier = args[i + 1]
        del args[i : i + 2]
    dirs = args or sorted(glob.glob(os.path.join(core.VERIF_DIR, "legit", "*")))
    alarms = 0
    n = 0
    for d in dirs:
        patch = os.path.join(d, "patch.diff")
        if not os.path.exists(patch):
            continue
        meta = json.load(open(os.path.join(d, "meta.json")))
        scratch, repo = _scratch_copy()
        try:
            p = subprocess.run(["patch", "-p1", "-s", "-d", repo, "-i", os.path.abspath(patch)], stdout=subprocess.PIPE, stderr=subprocess.STDOUT)
            if p.returncode != 0:
                print(f"noalarm {os.path.basename(d)}: patch does not apply: {p.stdout.decode()[:200]}")
                alarms += 1
                continue
            for pid in meta["properties"]:
                if os.environ.get("VERIF_ONLY_PROPS") and pid not in os.environ["VERIF_ONLY_PROPS"].split(","):
                    continue
                env = dict(os.environ, VERIF_REPO=repo, VERIF_NO_EVIDENCE="1")
                t0 = time.time()
                q = subprocess.run(
                    [sys.executable, os.path.join(core.VERIF_DIR, "sim", "cli.py"), "check", pid, "--tier", tier],
                    env=env, stdout=subprocess.PIPE, stderr=subprocess.STDOUT, timeout=7200,
                )
                n += 1
                ok = q.returncode == 0
                print(f"noalarm {os.path.basename(d)} property={pid} quiet={ok} exit={q.returncode} wall={time.time()-t0:.1f}s", flush=True)
                if not ok:
                    alarms += 1
                    print(q.stdout.decode()[-1500:])
        finally:
            shutil.rmtree(scratch, ignore_errors=True)
    print(f"noalarm: {n} (change, property) pairs, alarms {alarms}")
    return 1 if alarms else 0


# --------------------------------------------------------------------------------------
# repaired defects stay repaired, and would be reported again if they came back
# --------------------------------------------------------------------------------------

FIXES = {"D1": "a58c061", "D2": "cfed13a", "D3": "67716a6", "D4": "266dc28"}


def fixed():
    """For every repaired defect: its replay files do not reproduce on /repo as it is, and do
    reproduce on a scratch copy in which that one fix commit is reverted."""
    bad = 0
    for d, commit in sorted(FIXES.items()):
        files = sorted(glob.glob(os.path.join(core.VERIF_DIR, "findings", d, "*.json")))
        scratch, repo = _scratch_copy()
        try:
            diff = subprocess.run(["git", "-C", core.REPO, "show", "--format=", commit], stdout=subprocess.PIPE).stdout
            p = subprocess.run(["patch", "-R", "-p1", "-s", "-d", repo], input=diff, stdout=subprocess.PIPE, stderr=subprocess.STDOUT)
            if p.returncode != 0:
                print(f"fixed {d}: cannot revert {commit} in the scratch copy: {p.stdout.decode()[:200]}")
                bad += 1
                continue
            for f in files:
                cmd = [sys.executable, os.path.join(core.VERIF_DIR, "sim", "cli.py"), "replay", f]
                now = subprocess.run(cmd, env=dict(os.environ, VERIF_REPO=core.REPO), stdout=subprocess.PIPE, stderr=subprocess.STDOUT)
                back = subprocess.run(cmd, env=dict(os.environ, VERIF_REPO=repo), stdout=subprocess.PIPE, stderr=subprocess.STDOUT)
                ok = now.returncode == 0 and back.returncode == 1
                print(f"fixed {d} {os.path.basename(f)}: on the repaired tree exit={now.returncode} (want 0), with {commit} reverted exit={back.returncode} (want 1) {'ok' if ok else 'UNEXPECTED'}")
                if not ok:
                    bad += 1
                    print(now.stdout.decode()[-400:])
                    print(back.stdout.decode()[-400:])
        finally:
            shutil.rmtree(scratch, ignore_errors=True)
    return 1 if bad else 0
