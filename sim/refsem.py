"""Scenario AST: generator, validity, reference semantics, realisation through the cspuz DSL.

The AST is plain JSON (lists with a string head).  The reference evaluator works on the AST
with Python integers and booleans only and never looks at a cspuz ``Expr``.

B ::= ["b", id] | ["T"] | ["F"]
    | ["not", B, via] | ["and"|"or"|"iff"|"xor", B, B, how] | ["imp", B, B, how]
    | ["andn", [B...]] | ["orn", [B...]]               raw n-ary AND / OR nodes
    | ["fold_and", [B...], how] | ["fold_or", [B...], how]
    | ["eq"|"ne"|"le"|"lt"|"ge"|"gt", I, I, how]
    | ["alldiff", [I...], how]
    | ["gavc", n, [[u,v]...], [B...]]                  native graph node
    | ["gdiv", n, [[u,v]...], [I|null ...], [B...]]    native division node
I ::= ["i", id] | ["c", n]
    | ["neg", I, via] | ["add"|"sub", I, I, how] | ["nadd", [I...]] | ["nsub", [I...]]
    | ["if", B, I, I, how] | ["count", [B...], how] | ["sum", [I...]]

``how`` picks among equivalent public spellings (see build()).
"""

from __future__ import annotations

import itertools
import json

BOOL_TAGS = {
    "b", "T", "F", "not", "and", "or", "iff", "xor", "imp", "andn", "orn", "fold_and", "fold_or",
    "eq", "ne", "le", "lt", "ge", "gt", "alldiff", "gavc", "gdiv",
}
INT_TAGS = {"i", "c", "neg", "add", "sub", "nadd", "nsub", "if", "count", "sum"}
CMP = {"eq": "==", "ne": "!=", "le": "<=", "lt": "<", "ge": ">=", "gt": ">"}


def typ(node):
    t = node[0]
    if t in BOOL_TAGS:
        return "B"
    if t in INT_TAGS:
        return "I"
    raise ValueError(f"unknown tag {t!r}")


def is_literal(node):
    """True iff realisation yields a plain Python bool/int (not an Expr)."""
    return node[0] in ("T", "F", "c")


def children(node):
    """(child, type) pairs of a node."""
    t = node[0]
    if t in ("b", "i", "T", "F", "c"):
        return []
    if t == "not":
        return [(node[1], "B")]
    if t == "neg":
        return [(node[1], "I")]
    if t in ("and", "or", "iff", "xor", "imp"):
        return [(node[1], "B"), (node[2], "B")]
    if t in CMP or t in ("add", "sub"):
        return [(node[1], "I"), (node[2], "I")]
    if t in ("andn", "orn", "fold_and", "fold_or", "count"):
        return [(c, "B") for c in node[1]]
    if t in ("nadd", "nsub", "sum", "alldiff"):
        return [(c, "I") for c in node[1]]
    if t == "if":
        return [(node[1], "B"), (node[2], "I"), (node[3], "I")]
    if t == "gavc":
        return [(c, "B") for c in node[3]]
    if t == "gdiv":
        return [(c, "I") for c in node[3] if c is not None] + [(c, "B") for c in node[4]]
    raise ValueError(t)


def size(node):
    return 1 + sum(size(c) for c, _ in children(node))


def var_ids(node, acc=None):
    acc = set() if acc is None else acc
    if node[0] in ("b", "i"):
        acc.add((node[0], node[1]))
    for c, _ in children(node):
        var_ids(c, acc)
    return acc


def tags(node, acc=None):
    acc = set() if acc is None else acc
    acc.add(node[0])
    for c, _ in children(node):
        tags(c, acc)
    return acc


# --------------------------------------------------------------------------------------
# validity
# --------------------------------------------------------------------------------------


def valid(node, decls, want=None):
    """decls: list of {"t":"b"} / {"t":"i","lo":..,"hi":..}; ids index into it."""
    try:
        return _valid(node, decls, want)
    except (IndexError, TypeError, ValueError, KeyError):
        return False


def _valid(node, decls, want):
    if not isinstance(node, list) or not node or not isinstance(node[0], str):
        return False
    t = node[0]
    if t not in BOOL_TAGS and t not in INT_TAGS:
        return False
    if want is not None and typ(node) != want:
        return False
    if t == "b":
        return isinstance(node[1], int) and 0 <= node[1] < len(decls) and decls[node[1]]["t"] == "b"
    if t == "i":
        return isinstance(node[1], int) and 0 <= node[1] < len(decls) and decls[node[1]]["t"] == "i"
    if t in ("T", "F"):
        return len(node) == 1
    if t == "c":
        return isinstance(node[1], int) and not isinstance(node[1], bool)
    for c, ty in children(node):
        if not _valid(c, decls, ty):
            return False
    if t in ("not", "neg"):
        return not is_literal(node[1])
    if t in ("and", "or", "iff", "xor") or t in CMP or t in ("add", "sub"):
        # an operator overload needs at least one Expr operand
        return not (is_literal(node[1]) and is_literal(node[2]))
    if t == "imp":
        how = node[3] if len(node) > 3 else 0
        if how == 0 and is_literal(node[1]):
            return False  # a.then(b) needs a to be an Expr
        return True
    if t == "if":
        how = node[4] if len(node) > 4 else 0
        if how == 0 and is_literal(node[1]):
            return False
        return True
    if t == "nadd":
        return len(node[1]) >= 1
    if t == "nsub":
        # a one-operand SUB node is not well formed: the Sugar dialect spells it "(- x)", which is
        # unary minus, while the z3 translation folds it to x; the DSL itself never builds it
        return len(node[1]) >= 2
    if t == "sum":
        # Python's sum(): 0 + x0 + x1 ...; needs the first item to be an Expr or all literal is
        # evaluated by Python itself -> require at least one non literal in first two
        return len(node[1]) >= 1 and not is_literal(node[1][0])
    if t == "gavc":
        n, edges, flags = node[1], node[2], node[3]
        return len(flags) == n and all(0 <= u < n and 0 <= v < n and u != v for u, v in edges)
    if t == "gdiv":
        n, edges, sizes, borders = node[1], node[2], node[3], node[4]
        return (
            len(sizes) == n
            and len(borders) == len(edges)
            and all(0 <= u < n and 0 <= v < n and u != v for u, v in edges)
        )
    return True


# --------------------------------------------------------------------------------------
# reference semantics: compile to a Python lambda over the assignment vector
# --------------------------------------------------------------------------------------


def _alldiff(xs):
    return len(set(xs)) == len(xs)


def _nsub(xs):
    r = xs[0]
    for x in xs[1:]:
        r -= x
    return r


def _components(n, edges, keep_edge):
    parent = list(range(n))

    def find(a):
        while parent[a] != a:
            parent[a] = parent[parent[a]]
            a = parent[a]
        return a

    for k, (u, v) in enumerate(edges):
        if keep_edge(k, u, v):
            ru, rv = find(u), find(v)
            if ru != rv:
                parent[ru] = rv
    return [find(a) for a in range(n)]


def _gavc(n, edges, flags):
    act = [i for i in range(n) if flags[i]]
    if len(act) <= 1:
        return True
    comp = _components(n, edges, lambda k, u, v: flags[u] and flags[v])
    return len({comp[i] for i in act}) == 1


def _gdiv(n, edges, sizes, borders):
    comp = _components(n, edges, lambda k, u, v: not borders[k])
    for k, (u, v) in enumerate(edges):
        if borders[k] and comp[u] == comp[v]:
            return False
    cnt = {}
    for c in comp:
        cnt[c] = cnt.get(c, 0) + 1
    for i in range(n):
        if sizes[i] is not None and cnt[comp[i]] != sizes[i]:
            return False
    return True


_ENV = {"_alldiff": _alldiff, "_nsub": _nsub, "_gavc": _gavc, "_gdiv": _gdiv}


def src(node):
    t = node[0]
    if t == "b" or t == "i":
        return f"v[{node[1]}]"
    if t == "T":
        return "True"
    if t == "F":
        return "False"
    if t == "c":
        return f"({node[1]})"
    if t == "not":
        return f"(not {src(node[1])})"
    if t == "neg":
        return f"(-{src(node[1])})"
    if t == "and":
        return f"({src(node[1])} and {src(node[2])})"
    if t == "or":
        return f"({src(node[1])} or {src(node[2])})"
    if t == "iff":
        return f"({src(node[1])} == {src(node[2])})"
    if t == "xor":
        return f"({src(node[1])} != {src(node[2])})"
    if t == "imp":
        return f"((not {src(node[1])}) or {src(node[2])})"
    if t in CMP:
        return f"({src(node[1])} {CMP[t]} {src(node[2])})"
    if t == "add":
        return f"({src(node[1])} + {src(node[2])})"
    if t == "sub":
        return f"({src(node[1])} - {src(node[2])})"
    if t in ("andn", "fold_and"):
        return "all([" + ", ".join(src(c) for c in node[1]) + "])"
    if t in ("orn", "fold_or"):
        return "any([" + ", ".join(src(c) for c in node[1]) + "])"
    if t == "count":
        return "sum([1 if x else 0 for x in [" + ", ".join(src(c) for c in node[1]) + "]])"
    if t in ("nadd", "sum"):
        return "sum([" + ", ".join(src(c) for c in node[1]) + "])"
    if t == "nsub":
        return "_nsub([" + ", ".join(src(c) for c in node[1]) + "])"
    if t == "alldiff":
        return "_alldiff([" + ", ".join(src(c) for c in node[1]) + "])"
    if t == "if":
        return f"({src(node[2])} if {src(node[1])} else {src(node[3])})"
    if t == "gavc":
        return f"_gavc({node[1]}, {node[2]!r}, [" + ", ".join(src(c) for c in node[3]) + "])"
    if t == "gdiv":
        sizes = ", ".join("None" if c is None else src(c) for c in node[3])
        return f"_gdiv({node[1]}, {node[2]!r}, [{sizes}], [" + ", ".join(src(c) for c in node[4]) + "])"
    raise ValueError(t)


def compile_pred(constraints):
    """One predicate for the conjunction of boolean ASTs."""
    if not constraints:
        return lambda v: True
    body = " and ".join(src(c) for c in constraints)
    return eval("lambda v: (" + body + ")", dict(_ENV))


def compile_one(node):
    return eval("lambda v: (" + src(node) + ")", dict(_ENV))


def domains(decls):
    out = []
    for d in decls:
        if d["t"] == "b":
            out.append((False, True))
        else:
            out.append(tuple(range(d["lo"], d["hi"] + 1)))
    return out


def domain_product(decls):
    p = 1
    for d in decls:
        p *= 2 if d["t"] == "b" else (d["hi"] - d["lo"] + 1)
    return p


def models(decls, constraints, limit=None):
    """All assignments (tuples in declaration order) satisfying every constraint."""
    pred = compile_pred(constraints)
    out = []
    for v in itertools.product(*domains(decls)):
        if pred(v):
            out.append(v)
            if limit is not None and len(out) >= limit:
                break
    return out


# --------------------------------------------------------------------------------------
# generator
# --------------------------------------------------------------------------------------


class Gen:
    """Type directed random AST generator with a node budget."""

    def __init__(self, rng, decls, graph_nodes=False, small_consts=True):
        self.rng = rng
        self.decls = decls
        self.bools = [i for i, d in enumerate(decls) if d["t"] == "b"]
        self.ints = [i for i, d in enumerate(decls) if d["t"] == "i"]
        self.graph_nodes = graph_nodes
        self.wide_p = 0.04  # chance that an n-ary node gets 8-14 operands
        self.big_graphs = False

    # -- leaves
    def leaf_b(self, allow_lit=True):
        r = self.rng
        if self.bools and (not allow_lit or r.random() < 0.8):
            return ["b", r.choice(self.bools)]
        if allow_lit:
            return [r.choice(["T", "F"])]
        # no boolean variable: make one out of an int comparison or a helper constant
        if self.ints:
            return ["eq", ["i", r.choice(self.ints)], ["c", self.const()], 0]
        return ["fold_or", [[r.choice(["T", "F"])]], 0]

    def const(self):
        r = self.rng
        if self.ints and r.random() < 0.6:
            d = self.decls[r.choice(self.ints)]
            return r.randint(d["lo"] - 1, d["hi"] + 1)
        if r.random() < 0.03:
            return r.choice(HUGE_BASES) + r.randint(-1, 2)
        return r.choice([-3, -2, -1, 0, 0, 1, 1, 2, 3, 5])

    def leaf_i(self, allow_lit=True):
        r = self.rng
        if self.ints and (not allow_lit or r.random() < 0.7):
            return ["i", r.choice(self.ints)]
        if allow_lit:
            return ["c", self.const()]
        if self.bools:
            return ["if", ["b", r.choice(self.bools)], ["c", self.const()], ["c", self.const()], 0]
        return ["count", [[r.choice(["T", "F"])]], 0]

    def nonlit(self, node, ty):
        if not is_literal(node):
            return node
        return self.leaf_b(False) if ty == "B" else self.leaf_i(False)

    # -- recursive
    def gen_b(self, budget, allow_lit=False):
        r = self.rng
        if budget <= 1:
            return self.leaf_b(allow_lit)
        choices = [
            "not", "and", "or", "iff", "xor", "imp", "cmp", "cmp", "cmp", "andn", "orn",
            "fold_and", "fold_or", "alldiff", "leaf",
        ]
        if self.graph_nodes:
            choices += ["gavc", "gdiv"]
        k = r.choice(choices)
        if k == "leaf":
            return self.leaf_b(allow_lit)
        if k == "not":
            return ["not", self.nonlit(self.gen_b(budget - 1, False), "B"), r.randint(0, 1)]
        if k in ("and", "or", "iff", "xor"):
            a, b = self.split2(budget - 1)
            x = self.gen_b(a, True)
            y = self.gen_b(b, True)
            if is_literal(x) and is_literal(y):
                if r.random() < 0.5:
                    x = self.nonlit(x, "B")
                else:
                    y = self.nonlit(y, "B")
            return [k, x, y, r.randint(0, 2)]
        if k == "imp":
            a, b = self.split2(budget - 1)
            how = r.choice([0, 0, 1, 1, 2, 3, 4])
            x = self.gen_b(a, True)
            y = self.gen_b(b, True)
            if how == 0:
                x = self.nonlit(x, "B")
            return ["imp", x, y, how]
        if k == "cmp":
            a, b = self.split2(budget - 1)
            x = self.gen_i(a, True)
            y = self.gen_i(b, True)
            if is_literal(x) and is_literal(y):
                if r.random() < 0.5:
                    x = self.nonlit(x, "I")
                else:
                    y = self.nonlit(y, "I")
            return [r.choice(list(CMP)), x, y, r.randint(0, 2)]
        if k in ("andn", "orn"):
            n = r.choice([0, 1, 2, 2, 3, 4]) if r.random() > self.wide_p else r.randint(8, 14)
            parts = self.splitn(budget - 1, n)
            return [k, [self.gen_b(p, True) for p in parts]]
        if k in ("fold_and", "fold_or"):
            n = r.choice([0, 1, 1, 2, 2, 3, 4]) if r.random() > self.wide_p else r.randint(8, 14)
            parts = self.splitn(budget - 1, n)
            items = [self.gen_b(p, True) for p in parts]
            return [k, items, r.randint(0, 5)]
        if k == "alldiff":
            n = r.choice([0, 1, 2, 2, 3, 3, 4]) if r.random() > self.wide_p else r.randint(6, 10)
            parts = self.splitn(budget - 1, n)
            items = [self.gen_i(p, True) for p in parts]
            return ["alldiff", items, r.randint(0, 1)]
        if k == "gavc":
            return self.gen_gavc(budget - 1)
        if k == "gdiv":
            return self.gen_gdiv(budget - 1)
        raise AssertionError(k)

    def gen_i(self, budget, allow_lit=False):
        r = self.rng
        if budget <= 1:
            return self.leaf_i(allow_lit)
        k = r.choice(["neg", "add", "sub", "add", "sub", "nadd", "nsub", "if", "count", "sum", "leaf"])
        if k == "leaf":
            return self.leaf_i(allow_lit)
        if k == "neg":
            return ["neg", self.nonlit(self.gen_i(budget - 1, False), "I"), r.randint(0, 1)]
        if k in ("add", "sub"):
            a, b = self.split2(budget - 1)
            x = self.gen_i(a, True)
            y = self.gen_i(b, True)
            if is_literal(x) and is_literal(y):
                if r.random() < 0.5:
                    x = self.nonlit(x, "I")
                else:
                    y = self.nonlit(y, "I")
            return [k, x, y, r.randint(0, 2)]
        if k in ("nadd", "nsub"):
            n = r.choice([1, 2, 3, 3, 4]) if k == "nadd" else r.choice([2, 2, 3, 3, 4])
            if r.random() < self.wide_p:
                n = r.randint(8, 12)
            parts = self.splitn(budget - 1, n)
            return [k, [self.gen_i(p, True) for p in parts]]
        if k == "sum":
            n = r.choice([1, 2, 3])
            parts = self.splitn(budget - 1, n)
            items = [self.gen_i(p, True) for p in parts]
            items[0] = self.nonlit(items[0], "I")
            return ["sum", items]
        if k == "if":
            a, b, c = self.splitn(budget - 1, 3)
            how = r.choice([0, 0, 1, 1, 2, 3, 4, 5])
            cnd = self.gen_b(a, True)
            if how == 0:
                cnd = self.nonlit(cnd, "B")
            return ["if", cnd, self.gen_i(b, True), self.gen_i(c, True), how]
        if k == "count":
            n = r.choice([0, 1, 1, 2, 3, 4]) if r.random() > self.wide_p else r.randint(8, 14)
            parts = self.splitn(budget - 1, n)
            return ["count", [self.gen_b(p, True) for p in parts], r.randint(0, 5)]
        raise AssertionError(k)

    def split2(self, budget):
        budget = max(2, budget)
        a = self.rng.randint(1, budget - 1)
        return a, budget - a

    def splitn(self, budget, n):
        if n == 0:
            return []
        budget = max(n, budget)
        parts = [1] * n
        for _ in range(budget - n):
            parts[self.rng.randrange(n)] += 1
        return parts

    # -- native graph nodes (only used where the backend under test supports them)
    def small_graph(self):
        r = self.rng
        n = r.randint(1, 5)
        if self.big_graphs and r.random() < 0.3:
            n = r.randint(6, 13)
        kind = r.choice(["path", "cycle", "random", "grid", "empty"])
        edges = []
        if kind == "path":
            edges = [[i, i + 1] for i in range(n - 1)]
        elif kind == "cycle" and n >= 3:
            edges = [[i, (i + 1) % n] for i in range(n)]
        elif kind == "grid" and n >= 4:
            n = 4
            edges = [[0, 1], [2, 3], [0, 2], [1, 3]]
        elif kind == "random":
            for u in range(n):
                for v in range(u + 1, n):
                    if r.random() < 0.5:
                        edges.append([u, v] if r.random() < 0.7 else [v, u])
            r.shuffle(edges)
        if self.big_graphs and edges and r.random() < 0.2:
            edges.append(list(r.choice(edges)))  # duplicate edge
        return n, edges

    def gen_gavc(self, budget):
        n, edges = self.small_graph()
        parts = self.splitn(budget, n)
        flags = [self.gen_b(min(p, 3), True) for p in parts]
        return ["gavc", n, edges, flags]

    def gen_gdiv(self, budget):
        r = self.rng
        n, edges = self.small_graph()
        sizes = []
        for _ in range(n):
            if r.random() < 0.4:
                sizes.append(None)
            elif r.random() < 0.5:
                sizes.append(["c", r.randint(1, n)])
            else:
                sizes.append(self.leaf_i(True))
        borders = [self.gen_b(1, True) for _ in edges]
        return ["gdiv", n, edges, sizes, borders]


def gen_template(rng, g):
    """Constraint shapes that puzzle code really posts and that a small random tree rarely forms:
    cardinality over many cells, linear sums, wide alldifferent, guarded comparisons."""
    r = rng
    kind = r.choice(["card", "card", "card", "linear", "alldiff", "guarded"])
    if kind == "card" and g.bools:
        n = r.choice([2, 3, 5, 8, 12, 16, 17, 20, 24])
        items = []
        plain = r.random() < 0.6
        for _ in range(n):
            q = r.random()
            if q < 0.12:
                items.append(["T"])
            elif q < 0.18:
                items.append(["F"])
            elif plain or q < 0.8:
                items.append(["b", r.choice(g.bools)])
            else:
                items.append(["not", ["b", r.choice(g.bools)], 0])
        cnt = ["count", items, r.choice([0, 0, 1, 2, 3])]
        c = ["c", r.randint(-2, n + 1)]
        op = r.choice(["eq", "le", "ge", "lt", "gt", "ne", "eq", "le"])
        node = [op, cnt, c, 0] if r.random() < 0.7 else [op, c, cnt, 0]
        return node if r.random() < 0.85 else ["not", node, 0]
    if kind == "linear" and g.ints:
        n = r.choice([2, 3, 4, 6, 9])
        items = [["i", r.choice(g.ints)] if r.random() < 0.8 else ["c", r.randint(-3, 3)] for _ in range(n)]
        items[0] = ["i", r.choice(g.ints)]
        lhs = [r.choice(["nadd", "sum", "nsub"]), items]
        return [r.choice(list(CMP)), lhs, ["c", r.randint(-6, 12)], 0]
    if kind == "alldiff" and g.ints:
        n = r.choice([3, 5, 7, 9])
        items = [["i", r.choice(g.ints)] if r.random() < 0.75 else ["c", r.randint(-2, 4)] for _ in range(n)]
        return ["alldiff", items, r.randint(0, 1)]
    if g.bools and g.ints:
        guard = ["b", r.choice(g.bools)]
        body = [r.choice(list(CMP)), ["i", r.choice(g.ints)], ["c", g.const()], 0]
        return ["imp", guard, body, r.randint(0, 1)] if r.random() < 0.6 else ["iff", guard, body, 0]
    return g.gen_b(4)


def gen_witness(rng, decls):
    return [rng.random() < 0.5 if d["t"] == "b" else rng.randint(d["lo"], d["hi"]) for d in decls]


def gen_constraint(rng, g, budget, witness=None, allow_lit=False):
    """A boolean AST; if a witness assignment is given the constraint is made true under it."""
    if rng.random() < 0.12:
        c = gen_template(rng, g)
    else:
        c = g.gen_b(budget, allow_lit=allow_lit)
    if witness is not None and len(witness) == len(g.decls) and rng.random() < 0.85:
        try:
            ok = compile_one(c)(tuple(witness))
        except Exception:
            return c
        if not ok:
            if is_literal(c):
                return ["T"] if allow_lit else g.leaf_b(False)
            c = ["not", c, 0]
    return c


HUGE_BASES = [2**31 - 2, -(2**31) - 1, 2**32 - 1, 2**63 - 2, -(2**63), 10**12, 255, 65535]


def gen_decls(rng, max_vars=8, cap=4096, allow_wide=True, min_vars=1, allow_huge=True, pad_to=0):
    """Declarations whose domain product stays under the cap.

    pad_to > 0: singleton-domain integers and (while the cap allows) booleans are appended until
    there are that many variables, so that two- and three-digit variable ids occur."""
    n = rng.randint(min_vars, max_vars)
    decls = []
    prod = 1
    wide_used = False
    for _ in range(n):
        if rng.random() < 0.5:
            if prod * 2 > cap:
                break
            decls.append({"t": "b"})
            prod *= 2
        else:
            kind = rng.choice(["small", "small", "neg", "single", "wide" if allow_wide else "small"])
            if allow_huge and rng.random() < 0.06:
                kind = "huge"
            if kind == "huge":
                lo = rng.choice(HUGE_BASES)
                hi = lo + rng.randint(0, 3)
            elif kind == "small":
                lo = rng.randint(0, 2)
                hi = lo + rng.randint(0, 3)
            elif kind == "neg":
                lo = rng.randint(-4, -1)
                hi = lo + rng.randint(0, 4)
            elif kind == "single":
                lo = hi = rng.randint(-3, 5)
            else:
                if wide_used:
                    lo, hi = 0, 2
                else:
                    lo = rng.choice([-50, -7, 0, 1, 10])
                    hi = lo + rng.randint(6, 40)
                    wide_used = True
            w = hi - lo + 1
            if prod * w > (cap * 5 if kind == "wide" else cap):
                continue
            decls.append({"t": "i", "lo": lo, "hi": hi})
            prod *= w
    if not decls:
        decls.append({"t": "b"})
    while len(decls) < pad_to:
        if rng.random() < 0.3 and prod * 2 <= cap:
            decls.insert(rng.randrange(len(decls) + 1), {"t": "b"})
            prod *= 2
        else:
            v = rng.randint(-3, 9)
            decls.insert(rng.randrange(len(decls) + 1), {"t": "i", "lo": v, "hi": v})
    return decls


# --------------------------------------------------------------------------------------
# realisation through the public DSL
# --------------------------------------------------------------------------------------


class Builder:
    """Builds cspuz expressions from ASTs; ``vars`` are the declared cspuz variables."""

    def __init__(self, cspuz_vars):
        import cspuz  # the module under test (path arranged by core.import_cspuz)
        from cspuz import constraints as K
        from cspuz import array as A
        from cspuz import expr as E

        self.v = cspuz_vars
        self.K = K
        self.A = A
        self.E = E
        self.cspuz = cspuz
        self.pre = {}  # id(AST node) -> object already built for it (shared sub-expression objects)

    def build(self, node):
        if self.pre and id(node) in self.pre:
            return self.pre[id(node)]
        t = node[0]
        E, K, A = self.E, self.K, self.A
        if t in ("b", "i"):
            return self.v[node[1]]
        if t == "T":
            return True
        if t == "F":
            return False
        if t == "c":
            return node[1]
        if t == "not":
            x = self.build(node[1])
            if self._via(node, 2) == 1:
                return (~A.BoolArray1D([x]))[0]
            return ~x
        if t == "neg":
            x = self.build(node[1])
            if self._via(node, 2) == 1:
                return (-A.IntArray1D([x]))[0]
            return -x
        if t in ("and", "or", "iff", "xor"):
            x, y = self.build(node[1]), self.build(node[2])
            how = self._via(node, 3)
            if how == 2:
                # element-wise array form: wrap an Expr operand into a 1-element array
                if isinstance(x, E.Expr):
                    x = A.BoolArray1D([x])
                else:
                    y = A.BoolArray1D([y])
            if t == "and":
                r = x & y
            elif t == "or":
                r = x | y
            elif t == "iff":
                r = x == y
            else:
                r = (x ^ y) if how != 1 else (x != y)
            return r[0] if how == 2 else r
        if t == "imp":
            x, y = self.build(node[1]), self.build(node[2])
            how = self._via(node, 3)
            if how == 0:
                return x.then(y)
            if how == 2 and isinstance(x, E.Expr):
                # element-wise forms: array premise (method and function), or array conclusion
                return A.BoolArray1D([x]).then(y)[0]
            if how == 3 and isinstance(y, E.Expr):
                return K.then(x, A.BoolArray1D([y]))[0]
            if how == 4 and isinstance(x, E.Expr) and isinstance(y, E.Expr):
                return K.then(A.BoolArray2D([x, x], (1, 2)), A.BoolArray2D([y, y], (1, 2)))[0, 1]
            return K.then(x, y)
        if t in CMP or t in ("add", "sub"):
            x, y = self.build(node[1]), self.build(node[2])
            how = self._via(node, 3)
            if how == 2:
                if isinstance(x, E.Expr):
                    x = A.IntArray1D([x])
                else:
                    y = A.IntArray1D([y])
            if t == "eq":
                r = x == y
            elif t == "ne":
                r = x != y
            elif t == "le":
                r = x <= y
            elif t == "lt":
                r = x < y
            elif t == "ge":
                r = x >= y
            elif t == "gt":
                r = x > y
            elif t == "add":
                r = x + y
            else:
                r = x - y
            return r[0] if how == 2 else r
        if t == "andn":
            return E.BoolExpr(E.Op.AND, [self.build(c) for c in node[1]])
        if t == "orn":
            return E.BoolExpr(E.Op.OR, [self.build(c) for c in node[1]])
        if t == "nadd":
            return E.IntExpr(E.Op.ADD, [self.build(c) for c in node[1]])
        if t == "nsub":
            return E.IntExpr(E.Op.SUB, [self.build(c) for c in node[1]])
        if t == "sum":
            return sum(self.build(c) for c in node[1])
        if t in ("fold_and", "fold_or", "count"):
            items = [self.build(c) for c in node[1]]
            how = self._via(node, 2)
            all_expr = all(isinstance(x, E.Expr) for x in items)
            fn = {"fold_and": K.fold_and, "fold_or": K.fold_or, "count": K.count_true}[t]
            meth = {"fold_and": "fold_and", "fold_or": "fold_or", "count": "count_true"}[t]
            if how == 1 and all_expr:
                return getattr(A.BoolArray1D(items), meth)()
            if how == 2 and all_expr and len(items) >= 1:
                n = len(items)
                shape = (2, n // 2) if n % 2 == 0 else (1, n)
                # which 2-D spelling is a pure function of the node (the scenario stream is not touched):
                # the whole array, or a strided selection out of a grid padded with a filler cell
                sub = len(json.dumps(node)) % 4
                rows, w = shape
                fill = items[0]
                if sub == 1:  # even rows, full width: grid[::2]
                    data = []
                    for r_ in range(rows):
                        data += items[r_ * w : (r_ + 1) * w] + [fill] * w
                    return getattr(A.BoolArray2D(data, (2 * rows, w))[::2], meth)()
                if sub == 2:  # odd rows, explicit full-width column range: grid[1::2, :]
                    data = []
                    for r_ in range(rows):
                        data += [fill] * w + items[r_ * w : (r_ + 1) * w]
                    return getattr(A.BoolArray2D(data, (2 * rows, w))[1::2, :], meth)()
                if sub == 3:  # even columns, all rows: grid[:, ::2]
                    data = []
                    for x in items:
                        data += [x, fill]
                    return getattr(A.BoolArray2D(data, (rows, 2 * w))[:, ::2], meth)()
                return getattr(A.BoolArray2D(items, shape), meth)()
            if how == 4 and all_expr and len(items) >= 1:
                # every second element of a padded array, taken with a stepped slice
                padded = []
                for x in items:
                    padded.extend([x, items[0]])
                return getattr(A.BoolArray1D(padded)[::2], meth)()
            if how == 5 and all_expr and len(items) >= 2:
                # reversed slice of a 2-D array row
                arr2 = A.BoolArray2D(list(reversed(items)) + list(items), (2, len(items)))
                return getattr(arr2[0, ::-1], meth)()
            if how == 3 and len(items) == 1 and all_expr:
                return getattr(items[0], meth)()
            if how == 3 and len(items) >= 2:
                # nested iterables: flatten_iterator must reach every item
                return fn([items[0]], [[items[1:]]])
            if how == 0 and len(items) >= 1:
                return fn(*items)
            return fn(items)
        if t == "alldiff":
            items = [self.build(c) for c in node[1]]
            how = self._via(node, 2)
            if how == 1 and all(isinstance(x, E.Expr) for x in items):
                return A.IntArray1D(items).alldifferent()
            return K.alldifferent(items)
        if t == "if":
            c, x, y = self.build(node[1]), self.build(node[2]), self.build(node[3])
            how = self._via(node, 4)
            if how == 0:
                return c.cond(x, y)
            if how == 2 and isinstance(c, E.Expr):
                return A.BoolArray1D([c]).cond(x, y)[0]  # array condition, scalar branches
            if how == 3 and isinstance(x, E.Expr):
                return K.cond(c, A.IntArray1D([x]), y)[0]  # scalar condition, array "then" branch
            if how == 4 and isinstance(y, E.Expr) and isinstance(c, E.Expr):
                return c.cond(x, A.IntArray1D([y]))[0]  # method form with an array "else" branch
            if how == 5 and isinstance(c, E.Expr):
                return K.cond(A.BoolArray2D([c, c], (2, 1)), x, y)[1, 0]
            return K.cond(c, x, y)
        if t == "gavc":
            n, edges = node[1], node[2]
            flags = [self.build(c) for c in node[3]]
            return E.BoolExpr(
                E.Op.GRAPH_ACTIVE_VERTICES_CONNECTED,
                [n, len(edges)] + flags + sum([[u, v] for u, v in edges], []),
            )
        if t == "gdiv":
            n, edges = node[1], node[2]
            sizes = [None if c is None else self.build(c) for c in node[3]]
            borders = [self.build(c) for c in node[4]]
            return E.BoolExpr(
                E.Op.GRAPH_DIVISION,
                [n, len(edges)] + sizes + sum([[u, v] for u, v in edges], []) + borders,
            )
        raise ValueError(t)

    @staticmethod
    def _via(node, idx):
        return node[idx] if len(node) > idx else 0


# --------------------------------------------------------------------------------------
# shrinking of ASTs
# --------------------------------------------------------------------------------------


def shrink_ast(node, ty=None):
    """Yield strictly smaller (or simpler) same-typed replacements of node."""
    ty = ty or typ(node)
    t = node[0]
    # replace by a same-typed child
    for c, cty in children(node):
        if cty == ty:
            yield c
    # literals
    if ty == "B" and t not in ("T", "F"):
        yield ["T"]
        yield ["F"]
    if ty == "I" and t != "c":
        yield ["c", 0]
        yield ["c", 1]
    if t == "c" and node[1] != 0:
        yield ["c", 0]
        if abs(node[1]) > 1:
            yield ["c", node[1] // 2]
    # n-ary: drop items
    if t in ("andn", "orn", "fold_and", "fold_or", "count", "nadd", "nsub", "sum", "alldiff"):
        items = node[1]
        for i in range(len(items)):
            yield [t, items[:i] + items[i + 1 :]] + node[2:]
    # simplify `how`
    for idx in range(1, len(node)):
        if isinstance(node[idx], int) and not isinstance(node[idx], bool) and idx >= 2 and t not in ("gavc", "gdiv", "c", "b", "i"):
            if node[idx] != 0 and idx == len(node) - 1:
                yield node[:idx] + [0]
    # recurse into children
    if t in ("not", "neg"):
        for s in shrink_ast(node[1]):
            yield [t, s] + node[2:]
    elif t in ("and", "or", "iff", "xor", "imp", "add", "sub") or t in CMP:
        for s in shrink_ast(node[1]):
            yield [t, s, node[2]] + node[3:]
        for s in shrink_ast(node[2]):
            yield [t, node[1], s] + node[3:]
    elif t in ("andn", "orn", "fold_and", "fold_or", "count", "nadd", "nsub", "sum", "alldiff"):
        for i, c in enumerate(node[1]):
            for s in shrink_ast(c):
                yield [t, node[1][:i] + [s] + node[1][i + 1 :]] + node[2:]
    elif t == "if":
        for i in (1, 2, 3):
            for s in shrink_ast(node[i]):
                yield node[:i] + [s] + node[i + 1 :]
    elif t == "gavc":
        for i, c in enumerate(node[3]):
            for s in shrink_ast(c):
                yield node[:3] + [node[3][:i] + [s] + node[3][i + 1 :]]
    elif t == "gdiv":
        for i, c in enumerate(node[3]):
            if c is not None:
                yield node[:3] + [node[3][:i] + [None] + node[3][i + 1 :], node[4]]
                for s in shrink_ast(c):
                    yield node[:3] + [node[3][:i] + [s] + node[3][i + 1 :], node[4]]
        for i, c in enumerate(node[4]):
            for s in shrink_ast(c):
                yield node[:4] + [node[4][:i] + [s] + node[4][i + 1 :]]
