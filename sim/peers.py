"""Stub peers: the parties cspuz talks to, owned by the simulator.

* ``SimBackend``  - an in-process solver backend whose *choice of model* is a scenario policy.
* ``SugarPeer``   - an external Sugar-protocol solver (reader for the CSP text, evaluator,
                    model enumerator, reply writer) reached through the ``subprocess`` seam or
                    through fake ``pycsugar`` / ``enigma_csp`` / ``cspuz_core`` modules.

Nothing in here is an oracle.  The evaluator over real ``Expr`` objects exists only so that
the stub can act as a solver on whatever ``Solver`` hands to it.
"""

from __future__ import annotations

import itertools
import random
import types

from sim import refsem
from sim.core import sub_seed


class NoReturnWithinBound(Exception):
    """Raised by a stub peer when it has been called more often than the progress bound."""


# --------------------------------------------------------------------------------------
# evaluating real cspuz Expr objects (stub side only)
# --------------------------------------------------------------------------------------


def expr_src(e, pos_of_id, E):
    """Python source of a cspuz expression over the vector ``v`` (indexed by position)."""
    Op = E.Op
    if e is None:
        return "None"
    if isinstance(e, bool):
        return "True" if e else "False"
    if isinstance(e, int):
        return f"({e})"
    if isinstance(e, (E.BoolVar, E.IntVar)):
        return f"v[{pos_of_id[e.id]}]"
    op = e.op
    xs = [expr_src(x, pos_of_id, E) for x in e.operands] if op not in (
        Op.GRAPH_ACTIVE_VERTICES_CONNECTED,
        Op.GRAPH_DIVISION,
    ) else None
    if op == Op.BOOL_CONSTANT:
        return "True" if e.operands[0] else "False"
    if op == Op.INT_CONSTANT:
        return f"({e.operands[0]})"
    if op == Op.NEG:
        return f"(-{xs[0]})"
    if op == Op.ADD:
        return "sum([" + ", ".join(xs) + "])"
    if op == Op.SUB:
        return "_nsub([" + ", ".join(xs) + "])"
    cmpop = {Op.EQ: "==", Op.NE: "!=", Op.LE: "<=", Op.LT: "<", Op.GE: ">=", Op.GT: ">"}
    if op in cmpop:
        return f"({xs[0]} {cmpop[op]} {xs[1]})"
    if op == Op.NOT:
        return f"(not {xs[0]})"
    if op == Op.AND:
        return "all([" + ", ".join(xs) + "])"
    if op == Op.OR:
        return "any([" + ", ".join(xs) + "])"
    if op == Op.IFF:
        return f"({xs[0]} == {xs[1]})"
    if op == Op.XOR:
        return f"({xs[0]} != {xs[1]})"
    if op == Op.IMP:
        return f"((not {xs[0]}) or {xs[1]})"
    if op == Op.IF:
        return f"({xs[1]} if {xs[0]} else {xs[2]})"
    if op == Op.ALLDIFF:
        return "_alldiff([" + ", ".join(xs) + "])"
    if op == Op.GRAPH_ACTIVE_VERTICES_CONNECTED:
        n, m = e.operands[0], e.operands[1]
        flags = [expr_src(x, pos_of_id, E) for x in e.operands[2 : 2 + n]]
        flat = e.operands[2 + n : 2 + n + 2 * m]
        edges = [[flat[2 * k], flat[2 * k + 1]] for k in range(m)]
        return f"_gavc({n}, {edges!r}, [" + ", ".join(flags) + "])"
    if op == Op.GRAPH_DIVISION:
        n, m = e.operands[0], e.operands[1]
        sizes = [expr_src(x, pos_of_id, E) for x in e.operands[2 : 2 + n]]
        flat = e.operands[2 + n : 2 + n + 2 * m]
        edges = [[flat[2 * k], flat[2 * k + 1]] for k in range(m)]
        borders = [expr_src(x, pos_of_id, E) for x in e.operands[2 + n + 2 * m :]]
        return f"_gdiv({n}, {edges!r}, [" + ", ".join(sizes) + "], [" + ", ".join(borders) + "])"
    raise ValueError(f"stub cannot evaluate {op}")


def compile_exprs(exprs, pos_of_id, E):
    if not exprs:
        return lambda v: True
    body = " and ".join(expr_src(x, pos_of_id, E) for x in exprs)
    return eval("lambda v: (" + body + ")", dict(refsem._ENV))


# --------------------------------------------------------------------------------------
# model choice policies
# --------------------------------------------------------------------------------------

POLICIES = ["lexmin", "lexmax", "uniform", "sticky", "contrarian", "rotate"]


def pick_model(policy, M, previous, key_pos, call_no):
    """Deterministic function of (M, previous model, key positions, policy, call number)."""
    name = policy["name"]
    if name == "lexmin":
        return M[0]
    if name == "lexmax":
        return M[-1]
    if name == "uniform":
        return M[random.Random(sub_seed(policy.get("seed", 0), call_no)).randrange(len(M))]
    if name == "rotate":
        return M[(policy.get("stride", 1) * call_no + policy.get("seed", 0)) % len(M)]
    if name in ("sticky", "contrarian"):
        if previous is None:
            return M[policy.get("seed", 0) % len(M)]
        pos = key_pos if key_pos else list(range(len(previous)))

        def agreement(m):
            return sum(1 for p in pos if m[p] == previous[p])

        best = None
        best_a = None
        for m in M:  # product order: ties resolved by lexmin
            a = agreement(m)
            if best is None or (a > best_a if name == "sticky" else a < best_a):
                best, best_a = m, a
        return best
    raise ValueError(name)


# --------------------------------------------------------------------------------------
# SimBackend
# --------------------------------------------------------------------------------------


class PeerCrash(RuntimeError):
    """Injected fault: the solver behind the seam dies during a call (after possibly having written
    part of its result).  The caller may see this exception; it must not see a made-up answer."""


class SimContext:
    """Per-run shared state of the stub backends (recorder + configuration)."""

    def __init__(self, result, policy=None, quirks=None, cap=None, native=False, product_cap=200000):
        self.result = result
        self.policy = policy or {"name": "lexmin"}
        self.quirks = quirks or {}
        self.cap = cap
        self.native = native
        self.calls = 0  # solve() calls since the last reset
        self.total_calls = 0
        self.product_cap = product_cap
        self.instances = 0
        self.last_models = None
        self.fault_in = None  # the fault_in-th backend call from now on dies (None: disarmed)
        self.fault_torn = 0  # ... after having written this many sol fields
        self.faults_fired = 0

    def reset_calls(self):
        self.calls = 0

    def arm_fault(self, n, torn=0):
        self.fault_in = n
        self.fault_torn = torn

    def disarm_fault(self):
        self.fault_in = None

    def tick_fault(self):
        """True when the call being entered is the one that dies."""
        if self.fault_in is None:
            return False
        self.fault_in -= 1
        if self.fault_in > 0:
            return False
        self.fault_in = None
        self.faults_fired += 1
        return True


def make_sim_backend(ctx: SimContext, E):
    """Returns a backend *class* bound to ctx (Solver instantiates it itself)."""

    class SimBackend:
        def __init__(self, variables):
            ctx.instances += 1
            self.variables = list(variables)
            self.pos_of_id = {}
            for p, v in enumerate(self.variables):
                if not isinstance(v, (E.BoolVar, E.IntVar)):
                    raise TypeError("SimBackend: not a variable")
                self.pos_of_id[v.id] = p
            self.constraints = []
            self._filtered = 0
            self._M = None
            self.previous = None
            self.key_pos = []

        def add_constraint(self, constraint):
            if isinstance(constraint, list):
                self.constraints.extend(constraint)
            else:
                self.constraints.append(constraint)

        def _models(self):
            if self._M is None:
                doms = []
                prod = 1
                for v in self.variables:
                    if isinstance(v, E.BoolVar):
                        doms.append((False, True))
                        prod *= 2
                    else:
                        doms.append(tuple(range(v.lo, v.hi + 1)))
                        prod *= max(0, v.hi - v.lo + 1)
                if prod > ctx.product_cap:
                    raise RuntimeError("SimBackend: domain product too large for the stub")
                pred = compile_exprs(self.constraints, self.pos_of_id, E)
                self._M = [a for a in itertools.product(*doms) if pred(a)]
                self._filtered = len(self.constraints)
            elif self._filtered < len(self.constraints):
                pred = compile_exprs(self.constraints[self._filtered :], self.pos_of_id, E)
                self._M = [a for a in self._M if pred(a)]
                self._filtered = len(self.constraints)
            return self._M

        def _write(self, values, dying=False):
            order = list(range(len(self.variables)))
            if ctx.quirks.get("write_order") == "rev":
                order.reverse()
            if dying:
                order = order[: ctx.fault_torn]
            for p in order:
                self.variables[p].sol = values[p]

        def _die(self, values):
            # injected crash: a torn write of the result, then the exception
            if values is not None:
                self._write(values, dying=True)
            ctx.result.hit("fault:backend_crash_mid_call")
            if values is not None and ctx.fault_torn:
                ctx.result.hit("fault:torn_result_write")
            ctx.result.log("backend", "crash", ctx.fault_torn)
            raise PeerCrash("injected: the backend died during the call")

        def solve(self):
            ctx.calls += 1
            ctx.total_calls += 1
            ctx.result.steps += 1
            if ctx.cap is not None and ctx.calls > ctx.cap:
                raise NoReturnWithinBound(f"backend solve() called {ctx.calls} times, bound {ctx.cap}")
            dying = ctx.tick_fault()
            M = self._models()
            ctx.last_models = len(M)
            if dying:
                self._die(list(pick_model(ctx.policy, M, self.previous, self.key_pos, ctx.calls)) if M else None)
            if not M:
                if ctx.quirks.get("clear_on_unsat"):
                    self._write([None] * len(self.variables))
                    ctx.result.hit("quirk:clear_on_unsat")
                else:
                    ctx.result.hit("quirk:leave_sol_on_unsat")
                ctx.result.log("backend", "solve", 0, None)
                return False
            m = pick_model(ctx.policy, M, self.previous, self.key_pos, ctx.calls)
            ctx.result.hit("policy:" + ctx.policy["name"])
            self.previous = m
            self._write(list(m))
            ctx.result.log("backend", "solve", len(M), list(m))
            return True

        def solve_irrefutably(self, is_answer_key):
            self.key_pos = [p for p in range(len(self.variables)) if is_answer_key[p]]
            if not ctx.native:
                raise NotImplementedError
            ctx.result.steps += 1
            ctx.total_calls += 1
            dying = ctx.tick_fault()
            M = self._models()
            ctx.result.hit("native_deduction_call")
            if dying:
                self._die(list(M[0]) if M else None)
            if not M:
                if ctx.quirks.get("clear_on_unsat"):
                    self._write([None] * len(self.variables))
                ctx.result.log("backend", "deduce", 0, None)
                return False
            vals = []
            for p in range(len(self.variables)):
                if is_answer_key[p] and all(m[p] == M[0][p] for m in M):
                    vals.append(M[0][p])
                else:
                    vals.append(None)
            self._write(vals)
            ctx.result.log("backend", "deduce", len(M), vals)
            return True

    return SimBackend


# --------------------------------------------------------------------------------------
# Sugar-protocol peer
# --------------------------------------------------------------------------------------


class ProtocolError(Exception):
    pass


def tokenize(text):
    out = []
    cur = []
    for ch in text:
        if ch in "()":
            if cur:
                out.append("".join(cur))
                cur = []
            out.append(ch)
        elif ch.isspace():
            if cur:
                out.append("".join(cur))
                cur = []
        else:
            cur.append(ch)
    if cur:
        out.append("".join(cur))
    return out


def parse_sexprs(tokens):
    pos = 0
    out = []

    def term():
        nonlocal pos
        if pos >= len(tokens):
            raise ProtocolError("unexpected end of text")
        t = tokens[pos]
        pos += 1
        if t == "(":
            items = []
            while True:
                if pos >= len(tokens):
                    raise ProtocolError("unbalanced parenthesis")
                if tokens[pos] == ")":
                    pos += 1
                    return items
                items.append(term())
        if t == ")":
            raise ProtocolError("unbalanced parenthesis")
        return t

    while pos < len(tokens):
        out.append(term())
    return out


_ALIAS = {
    "!": "not", "not": "not",
    "&&": "and", "and": "and",
    "||": "or", "or": "or",
    "=>": "imp", "imp": "imp",
    "iff": "iff", "xor": "xor",
    "=": "eq", "eq": "eq", "!=": "ne", "ne": "ne",
    "<=": "le", "le": "le", "<": "lt", "lt": "lt",
    ">=": "ge", "ge": "ge", ">": "gt", "gt": "gt",
    "+": "add", "add": "add", "-": "sub", "sub": "sub", "neg": "neg",
    "*": "mul", "mul": "mul", "abs": "abs", "min": "min", "max": "max",
    "if": "if", "alldifferent": "alldifferent",
    "graph-active-vertices-connected": "gavc",
    "graph-division": "gdiv",
}


class ParsedCSP:
    def __init__(self):
        self.decls = []  # (name, "b") / (name, "i", lo, hi) in order of appearance
        self.constraints = []  # S-expressions
        self.answer_keys = None  # None: answer-finder mode; list of names: deduction mode


def _is_int_tok(t):
    if isinstance(t, str):
        s = t[1:] if t[:1] in "+-" else t
        return s.isdigit() and len(s) > 0
    return False


def parse_csp(text):
    """Tolerant reader for the CSP description cspuz sends (Sugar CSP syntax + '#' key line)."""
    p = ParsedCSP()
    body = []
    for line in text.split("\n"):
        if line.startswith("#"):
            p.answer_keys = [k for k in line[1:].split(" ") if k != ""]
        else:
            body.append(line)
    terms = parse_sexprs(tokenize("\n".join(body)))
    for t in terms:
        if isinstance(t, list) and t and t[0] == "bool":
            if len(t) != 2 or not isinstance(t[1], str):
                raise ProtocolError(f"malformed bool declaration {t!r}")
            p.decls.append((t[1], "b"))
        elif isinstance(t, list) and t and t[0] == "int":
            if len(t) == 4 and _is_int_tok(t[2]) and _is_int_tok(t[3]):
                p.decls.append((t[1], "i", int(t[2]), int(t[3])))
            elif len(t) == 3 and _is_int_tok(t[2]):
                p.decls.append((t[1], "i", int(t[2]), int(t[2])))
            else:
                raise ProtocolError(f"malformed int declaration {t!r}")
        else:
            p.constraints.append(t)
    names = [d[0] for d in p.decls]
    if len(set(names)) != len(names):
        raise ProtocolError("variable declared twice")
    return p


def sexpr_src(t, index_of):
    """Python source for an S-expression over the vector v; '*' denotes 'no value'."""
    if isinstance(t, str):
        if t == "true":
            return "True"
        if t == "false":
            return "False"
        if t == "*":
            return "None"
        if _is_int_tok(t):
            return f"({int(t)})"
        if t in index_of:
            return f"v[{index_of[t]}]"
        raise ProtocolError(f"undeclared name {t!r}")
    if not t:
        raise ProtocolError("empty term")
    head = t[0]
    if not isinstance(head, str) or head not in _ALIAS:
        raise ProtocolError(f"unknown operator {head!r}")
    op = _ALIAS[head]
    if op in ("gavc", "gdiv"):
        args = t[1:]
        if len(args) < 2 or not _is_int_tok(args[0]) or not _is_int_tok(args[1]):
            raise ProtocolError("graph term without N M")
        n, m = int(args[0]), int(args[1])
        want = 2 + n + 2 * m + (m if op == "gdiv" else 0)
        if len(args) != want:
            raise ProtocolError(f"graph term has {len(args)} operands, expected {want}")
        first = [sexpr_src(x, index_of) for x in args[2 : 2 + n]]
        flat = args[2 + n : 2 + n + 2 * m]
        if not all(_is_int_tok(x) for x in flat):
            raise ProtocolError("graph edge endpoints must be integers")
        edges = [[int(flat[2 * k]), int(flat[2 * k + 1])] for k in range(m)]
        for u, v in edges:
            if not (0 <= u < n and 0 <= v < n):
                raise ProtocolError("graph edge endpoint out of range")
        if op == "gavc":
            return f"_gavc({n}, {edges!r}, [" + ", ".join(first) + "])"
        borders = [sexpr_src(x, index_of) for x in args[2 + n + 2 * m :]]
        return f"_gdiv({n}, {edges!r}, [" + ", ".join(first) + "], [" + ", ".join(borders) + "])"
    if op == "alldifferent" and len(t) == 2 and isinstance(t[1], list) and (
        not t[1] or not (isinstance(t[1][0], str) and t[1][0] in _ALIAS)
    ):
        xs = [sexpr_src(x, index_of) for x in t[1]]
    else:
        xs = [sexpr_src(x, index_of) for x in t[1:]]

    def need(k):
        if len(xs) != k:
            raise ProtocolError(f"operator {head} takes {k} operands, got {len(xs)}")

    if op == "not":
        need(1)
        return f"(not {xs[0]})"
    if op == "and":
        return "all([" + ", ".join(xs) + "])"
    if op == "or":
        return "any([" + ", ".join(xs) + "])"
    if op == "imp":
        need(2)
        return f"((not {xs[0]}) or {xs[1]})"
    if op == "iff":
        need(2)
        return f"(bool({xs[0]}) == bool({xs[1]}))"
    if op == "xor":
        need(2)
        return f"(bool({xs[0]}) != bool({xs[1]}))"
    cmpop = {"eq": "==", "ne": "!=", "le": "<=", "lt": "<", "ge": ">=", "gt": ">"}
    if op in cmpop:
        need(2)
        return f"({xs[0]} {cmpop[op]} {xs[1]})"
    if op == "add":
        return "sum([" + ", ".join(xs) + "])"
    if op == "neg":
        need(1)
        return f"(-{xs[0]})"
    if op == "sub":
        if len(xs) == 0:
            raise ProtocolError("'-' without operands")
        if len(xs) == 1:
            return f"(-{xs[0]})"
        return "_nsub([" + ", ".join(xs) + "])"
    if op == "mul":
        need(2)
        return f"({xs[0]} * {xs[1]})"
    if op == "abs":
        need(1)
        return f"abs({xs[0]})"
    if op in ("min", "max"):
        need(2)
        return f"{op}({xs[0]}, {xs[1]})"
    if op == "if":
        need(3)
        return f"({xs[1]} if {xs[0]} else {xs[2]})"
    if op == "alldifferent":
        return "_alldiff([" + ", ".join(xs) + "])"
    raise ProtocolError(f"unhandled operator {head!r}")


# crude sort check so that "(+ b0 1)" or "(&& i0)" is a protocol error rather than Python arithmetic
_BOOL_OPS = {"not", "and", "or", "imp", "iff", "xor", "eq", "ne", "le", "lt", "ge", "gt", "alldifferent", "gavc", "gdiv"}


def sexpr_sort(t, sort_of):
    if isinstance(t, str):
        if t in ("true", "false"):
            return "B"
        if t == "*":
            return "*"
        if _is_int_tok(t):
            return "I"
        if t in sort_of:
            return sort_of[t]
        raise ProtocolError(f"undeclared name {t!r}")
    op = _ALIAS.get(t[0]) if t and isinstance(t[0], str) else None
    if op is None:
        raise ProtocolError(f"unknown operator {t[:1]!r}")
    if op in ("gavc", "gdiv"):
        n, m = int(t[1]), int(t[2])
        first = t[3 : 3 + n]
        for x in first:
            s = sexpr_sort(x, sort_of)
            if op == "gavc" and s != "B":
                raise ProtocolError("graph-active-vertices-connected flag is not boolean")
            if op == "gdiv" and s not in ("I", "*"):
                raise ProtocolError("graph-division size is not an integer or *")
        if op == "gdiv":
            for x in t[3 + n + 2 * m :]:
                if sexpr_sort(x, sort_of) != "B":
                    raise ProtocolError("graph-division border is not boolean")
        return "B"
    args = t[1:]
    if op == "alldifferent" and len(args) == 1 and isinstance(args[0], list) and (
        not args[0] or not (isinstance(args[0][0], str) and args[0][0] in _ALIAS)
    ):
        args = args[0]
    sorts = [sexpr_sort(x, sort_of) for x in args]
    if op in ("not", "and", "or", "imp", "iff", "xor"):
        if any(s != "B" for s in sorts):
            raise ProtocolError(f"operator {t[0]} applied to a non-boolean")
        return "B"
    if op == "if":
        if len(sorts) != 3 or sorts[0] != "B" or sorts[1] != "I" or sorts[2] != "I":
            raise ProtocolError("ill-sorted if")
        return "I"
    if any(s != "I" for s in sorts):
        raise ProtocolError(f"operator {t[0]} applied to a non-integer")
    return "B" if op in _BOOL_OPS else "I"


class SugarProgram:
    """A parsed CSP description with its own evaluator and model enumerator."""

    def __init__(self, text, product_cap=200000):
        self.text = text
        self.parsed = parse_csp(text)
        self.names = [d[0] for d in self.parsed.decls]
        self.index_of = {n: i for i, n in enumerate(self.names)}
        self.sort_of = {d[0]: ("B" if d[1] == "b" else "I") for d in self.parsed.decls}
        for c in self.parsed.constraints:
            if sexpr_sort(c, self.sort_of) != "B":
                raise ProtocolError(f"top-level term is not boolean: {c!r}")
        if self.parsed.answer_keys is not None:
            for k in self.parsed.answer_keys:
                if k not in self.index_of:
                    raise ProtocolError(f"answer key {k!r} is not a declared variable")
        self.product_cap = product_cap
        self._M = None

    def domains(self):
        out = []
        for d in self.parsed.decls:
            out.append((False, True) if d[1] == "b" else tuple(range(d[2], d[3] + 1)))
        return out

    def predicate(self):
        if not self.parsed.constraints:
            return lambda v: True
        body = " and ".join("bool(" + sexpr_src(c, self.index_of) + ")" for c in self.parsed.constraints)
        return eval("lambda v: (" + body + ")", dict(refsem._ENV))

    def models(self):
        if self._M is None:
            prod = 1
            for d in self.domains():
                prod *= len(d)
            if prod > self.product_cap:
                raise RuntimeError("SugarPeer: domain product too large for the stub")
            pred = self.predicate()
            self._M = [a for a in itertools.product(*self.domains()) if pred(a)]
        return self._M


def fmt_value(v):
    if v is True:
        return "true"
    if v is False:
        return "false"
    return str(v)


def write_answer_reply(names, sorts, values, order="java", order_seed=0, final_newline=True):
    """Answer-finder reply as CspuzSugarInterface prints it. values=None means UNSAT."""
    if values is None:
        text = "s UNSATISFIABLE\n"
    else:
        idx = list(range(len(names)))
        if order == "java":  # integers first, then booleans, each in declaration order
            idx = [i for i in idx if sorts[i] == "I"] + [i for i in idx if sorts[i] == "B"]
        elif order == "shuffled":
            random.Random(order_seed).shuffle(idx)
        lines = ["s SATISFIABLE"]
        for i in idx:
            lines.append(f"a {names[i]}\t{fmt_value(values[i])}")
        lines.append("a")
        text = "\n".join(lines) + "\n"
    if not final_newline:
        text = text[:-1]
    return text


def write_deduction_reply(facts, sorts_of_name, order="java", order_seed=0, final_newline=True):
    """Deduction reply. facts=None means unsat; else list of (name, value) of decided keys."""
    if facts is None:
        text = "unsat\n"
    else:
        facts = list(facts)
        if order == "java":
            facts = [f for f in facts if sorts_of_name[f[0]] == "I"] + [
                f for f in facts if sorts_of_name[f[0]] == "B"
            ]
        elif order == "shuffled":
            random.Random(order_seed).shuffle(facts)
        text = "\n".join(["sat"] + [f"{n} {fmt_value(v)}" for n, v in facts]) + "\n"
    if not final_newline:
        text = text[:-1]
    return text


class SugarPeer:
    """The external solver.  ``respond(text)`` is what both seams end up calling.

    mode "honest":     reply truthfully (model chosen by policy; exact deduction facts).
    mode "scripted":   reply with what the scenario dictates (reflection-only configuration).
    """

    def __init__(self, result, policy=None, fmt=None, script=None, cap=None):
        self.result = result
        self.policy = policy or {"name": "lexmin"}
        self.fmt = fmt or {}
        self.script = script  # callable(SugarProgram, call_no) -> reply text, or None
        self.calls = 0
        self.cap = cap
        self.received = []  # (entry point, text, SugarProgram | ProtocolError)
        self.previous = None
        self.fault_in = None  # the fault_in-th call from now on dies without a reply
        self.faults_fired = 0

    def respond(self, text, entry):
        self.calls += 1
        self.result.steps += 1
        if self.cap is not None and self.calls > self.cap:
            raise NoReturnWithinBound(f"external solver called {self.calls} times, bound {self.cap}")
        if self.fault_in is not None:
            self.fault_in -= 1
            if self.fault_in <= 0:
                self.fault_in = None
                self.faults_fired += 1
                self.result.hit("fault:external_solver_died_without_reply")
                self.result.log("peer", entry, "crash")
                raise PeerCrash("injected: the external solver died without a reply")
        try:
            prog = SugarProgram(text)
        except ProtocolError as e:
            self.received.append((entry, text, e))
            self.result.log("peer", entry, "protocol-error", str(e))
            # a real solver would print an error and no result line
            return "c ERROR " + str(e) + "\n"
        self.received.append((entry, text, prog))
        if self.script is not None:
            reply = self.script(prog, self.calls)
            self.result.log("peer", entry, "scripted", reply)
            return reply
        M = prog.models()
        fmt = self.fmt
        order = fmt.get("order", "java")
        oseed = sub_seed(fmt.get("seed", 0), self.calls)
        fnl = fmt.get("final_newline", True)
        self.result.hit("reply_order:" + order)
        self.result.hit("reply_final_newline:" + ("yes" if fnl else "no"))
        sorts = [prog.sort_of[n] for n in prog.names]
        if prog.parsed.answer_keys is None:
            if not M:
                reply = write_answer_reply(prog.names, sorts, None, final_newline=fnl)
            else:
                key_pos = []
                # "previous model" is per program (a second session may talk to the same peer)
                sig = tuple(prog.names)
                prev = self.previous.get(sig) if isinstance(self.previous, dict) else None
                m = pick_model(self.policy, M, prev, key_pos, self.calls)
                self.result.hit("policy:" + self.policy["name"])
                if not isinstance(self.previous, dict):
                    self.previous = {}
                self.previous[sig] = m
                reply = write_answer_reply(prog.names, sorts, m, order, oseed, fnl)
            self.result.log("peer", entry, "answer", len(M), reply)
            return reply
        if not M:
            reply = write_deduction_reply(None, prog.sort_of, final_newline=fnl)
        else:
            facts = []
            for k in prog.parsed.answer_keys:
                p = prog.index_of[k]
                if all(m[p] == M[0][p] for m in M):
                    facts.append((k, M[0][p]))
            reply = write_deduction_reply(facts, prog.sort_of, order, oseed, fnl)
        self.result.log("peer", entry, "deduce", len(M), reply)
        return reply


# --------------------------------------------------------------------------------------
# the two seams through which the peer is reached
# --------------------------------------------------------------------------------------


import subprocess as _real_subprocess


class FakeCompleted:
    def __init__(self, stdout):
        self.stdout = stdout
        self.returncode = 0


class FakeSubprocessModule:
    """Stands in for the ``subprocess`` attribute of cspuz.backend._subproc."""

    PIPE = -1
    DEVNULL = -3

    # the real exception class: library code anywhere (not only _subproc) may name subprocess.TimeoutExpired
    TimeoutExpired = _real_subprocess.TimeoutExpired

    def __init__(self, peer, recorder=None):
        self.peer = peer
        self.argv_log = []
        self.recorder = recorder
        self.popen_calls = 0
        self.stall_on_call = None
        self.stalls_fired = 0

    @staticmethod
    def _text_mode(kw):
        return bool(kw.get("text") or kw.get("universal_newlines") or kw.get("encoding") or kw.get("errors"))

    @staticmethod
    def _to_text(data):
        if data is None:
            return ""
        return data if isinstance(data, str) else data.decode("ascii")

    def run(self, args, input=None, stdout=None, **kw):
        self.argv_log.append(list(args))
        if self.recorder is not None:
            self.recorder.append(("subprocess", list(args)))
        reply = self.peer.respond(self._to_text(input), "subprocess:" + str(args[0]))
        # bytes in / bytes out, or text in / text out when the caller asked for text mode
        return FakeCompleted(reply if self._text_mode(kw) else reply.encode("utf-8"))

    def Popen(self, args, **kw):
        mod = self

        class P:
            pid = 4242

            def communicate(self_inner, data=None, timeout=None):
                mod.argv_log.append(list(args))
                mod.popen_calls += 1
                if mod.recorder is not None:
                    mod.recorder.append(("subprocess", list(args)))
                if mod.stall_on_call is not None and mod.popen_calls == mod.stall_on_call:
                    # a stalled solver: the deadline passes without a reply
                    mod.peer.result.hit("fault:solver_stalled_until_timeout")
                    mod.stalls_fired += 1
                    raise mod.TimeoutExpired(list(args), timeout)
                reply = mod.peer.respond(mod._to_text(data), "subprocess:" + str(args[0]))
                if mod._text_mode(kw):
                    return reply, ""
                return reply.encode("utf-8"), b""

            def __enter__(self_inner):
                return self_inner

            def __exit__(self_inner, *exc):
                return False

            def kill(self_inner):
                pass

            def wait(self_inner, timeout=None):
                return 0

        return P()


class FakePsutil:
    """Stands in for psutil in cspuz.backend._subproc (the timeout path needs it)."""

    def __init__(self):
        self.signals = []
        outer = self

        class Process:
            def __init__(self, pid):
                self.pid = pid

            def children(self, recursive=False):
                return [outer.Process(self.pid + 1)] if self.pid == 4242 else []

            def send_signal(self, sig):
                outer.signals.append((self.pid, int(sig)))

        self.Process = Process


def fake_extension_module(name, peer, recorder=None):
    m = types.ModuleType(name)

    def solver(text):
        if recorder is not None:
            recorder.append((name, None))
        return peer.respond(text, name)

    m.solver = solver
    m.__verif_fake__ = True
    return m


# --------------------------------------------------------------------------------------
# installing the peer behind the seams cspuz already has
# --------------------------------------------------------------------------------------

import contextlib
import sys as _sys

_MISSING = object()
EXT_MODULES = ("pycsugar", "enigma_csp", "cspuz_core")


def patch_subproc(sp, fake):
    """Put the fake behind every binding through which cspuz.backend._subproc can reach the
    subprocess machinery: the `subprocess` module attribute and, should a refactor import them
    directly, the names run / Popen / PIPE / TimeoutExpired.  Returns what unpatch() needs."""
    saved = []
    for name in ("subprocess", "run", "Popen", "PIPE", "TimeoutExpired"):
        if hasattr(sp, name):
            saved.append((sp, name, getattr(sp, name)))
            setattr(sp, name, fake if name == "subprocess" else getattr(fake, name))
    if not saved:
        raise RuntimeError("cspuz.backend._subproc exposes none of subprocess / run / Popen: the process seam is gone")
    return saved


def unpatch(saved):
    for obj, name, val in reversed(saved):
        setattr(obj, name, val)


@contextlib.contextmanager
def installed_peer(peer, recorder=None, modules=EXT_MODULES, psutil=False):
    """Route subprocess calls and extension-module calls of cspuz to ``peer``.

    psutil=True makes the timeout path of run_subprocess reachable (Popen + communicate with a
    deadline) by providing a fake psutil; the real package is not installed here."""
    import cspuz.backend._subproc as sp

    saved_ps = (getattr(sp, "_PSUTIL_AVAILABLE", False), getattr(sp, "psutil", _MISSING))
    if psutil:
        sp._PSUTIL_AVAILABLE = True
        sp.psutil = FakePsutil()
    import cspuz.backend.sugar_like as sl

    saved_mods = {n: _sys.modules.get(n, _MISSING) for n in EXT_MODULES}
    fake = FakeSubprocessModule(peer, recorder)
    saved_names = patch_subproc(sp, fake)
    for n in EXT_MODULES:
        if n in modules:
            _sys.modules[n] = fake_extension_module(n, peer, recorder)
        else:
            _sys.modules[n] = None  # import raises ImportError
        if hasattr(sl, n):
            saved_names.append((sl, n, getattr(sl, n)))
            setattr(sl, n, _sys.modules[n])
    try:
        yield fake
    finally:
        unpatch(saved_names)
        sp._PSUTIL_AVAILABLE = saved_ps[0]
        if saved_ps[1] is _MISSING:
            if hasattr(sp, "psutil"):
                del sp.psutil
        else:
            sp.psutil = saved_ps[1]
        for n, m in saved_mods.items():
            if m is _MISSING:
                _sys.modules.pop(n, None)
            else:
                _sys.modules[n] = m


@contextlib.contextmanager
def counted_z3(cap_holder):
    """Counts z3.Solver.check calls; raises NoReturnWithinBound beyond cap_holder['cap']."""
    import z3

    orig = z3.Solver.check

    def check(self, *a, **kw):
        cap_holder["calls"] = cap_holder.get("calls", 0) + 1
        cap_holder["total"] = cap_holder.get("total", 0) + 1
        cap = cap_holder.get("cap")
        if cap is not None and cap_holder["calls"] > cap:
            raise NoReturnWithinBound(f"z3 check() called {cap_holder['calls']} times, bound {cap}")
        if cap_holder.get("fault_in") is not None:
            cap_holder["fault_in"] -= 1
            if cap_holder["fault_in"] <= 0:
                cap_holder["fault_in"] = None
                cap_holder["faults_fired"] = cap_holder.get("faults_fired", 0) + 1
                if cap_holder.get("fault_kind") == "exception":
                    # the solver is interrupted: z3 raises
                    if cap_holder.get("result") is not None:
                        cap_holder["result"].hit("fault:z3_check_raises")
                    raise z3.Z3Exception("canceled")
                # the solver gives up: check() answers unknown (no model is available then)
                if cap_holder.get("result") is not None:
                    cap_holder["result"].hit("fault:z3_check_answers_unknown")
                return z3.unknown
        return orig(self, *a, **kw)

    z3.Solver.check = check
    try:
        yield
    finally:
        z3.Solver.check = orig
