"""C01 - find_answer decides satisfiability and leaves a genuine model in .sol.

Simulated system: 1-2 interleaved ``Solver`` sessions (real code: Solver, expr overloads,
constraints helpers, array element-wise ops, backend/z3.py, z3).  The simulator owns the
order of declare / ensure / find_answer / solve / add_answer_key, the interleaving of the two
sessions and the ``sol`` scribbles in between.  Oracle: exhaustive reference enumeration.
"""

from __future__ import annotations

import hashlib
import random

from sim import core, peers, refsem
from sim.core import RunResult

ID = "C01"
TIERS = {"quick": 25000, "thorough": 400000}
RULE = (
    "each run = one seeded session history: 1-2 Solver objects, <=8 variables each (12% of sessions padded with 8-12, some "
    "with 100-300, singleton-domain variables so that multi-digit ids occur; bounds around 2^31 / 2^32 / 2^63 occur), "
    "domain product <=4096 (<=20480 with one wide variable; 16384 in the thorough size ramp), <=14 operations (<=24 "
    "thorough), constraint trees <=25 nodes (<=60 thorough) over every DSL operator and spelling, 12% of constraints from "
    "puzzle-shaped templates (cardinality over up to 24 cells, linear sums, wide alldifferent, guarded comparisons), 65% of "
    "sessions witness-biased; constraints and answer keys are handed over positionally, as lists, nested lists, arrays, "
    "generators and tuples; non-trivial = at least one find_answer whose reference model set is neither empty nor the whole "
    "domain; distinct = distinct SHA-256 of the run's event log"    " 8% of the runs are programs beyond exhaustive enumeration (12-30 variables, domains up to 31 values and around 2^31 / 2^63, "
    "trees up to 60 nodes, wide nodes over up to 24 distinct variables), satisfiable by construction (hidden witness) and checked by "
    "pinning every variable to the witness, to boundary assignments (all low / all high / one-hot / one-cold) and to random assignments"
    '; fault injection in one session out of ten: the stub backend dies after a torn write of 0-4 sol fields, z3 check() answers unknown or raises, API calls are rejected (non-boolean constraint, bad array bounds, non-variable answer key) - the failing query may only raise, every later query is checked'
)
STATE_MEASURE = "distinct (declarations, model set) pairs at find_answer time"
COMPONENTS = {
    "real": ["cspuz.solver.Solver", "cspuz.expr", "cspuz.constraints", "cspuz.array (element-wise ops used to build trees)", "cspuz.backend.z3", "z3 5.x"],
    "stub": ["SimBackend (honest, lexmin) in the control configuration only"],
}
ASSUMPTIONS = [
    "z3 is real code inside the simulation but not a seam: its model choice cannot be steered",
    "reference semantics = ordinary integer arithmetic and boolean logic, evaluated exhaustively over the declared domains",
]


# --------------------------------------------------------------------------------------
# generation
# --------------------------------------------------------------------------------------


def _decl_ops(rng, s, decls_of_session, cap):
    """One declaration op (single variable or small array) that keeps the product under cap."""
    prod = refsem.domain_product(decls_of_session)
    kind = rng.choice(["bool_var", "int_var", "int_var", "bool_array", "int_array"])
    if kind == "bool_var":
        if prod * 2 > cap:
            return None
        return {"s": s, "op": "bool_var"}, [{"t": "b"}]
    if kind == "int_var":
        d = refsem.gen_decls(rng, max_vars=1, cap=10**9, allow_wide=rng.random() < 0.15)[0]
        if d["t"] == "b":
            d = {"t": "i", "lo": rng.randint(-2, 2), "hi": 3}
        w = d["hi"] - d["lo"] + 1
        if prod * w > (cap * 5 if w > 6 else cap):
            return None
        return {"s": s, "op": "int_var", "lo": d["lo"], "hi": d["hi"]}, [d]
    if kind == "bool_array":
        shape = rng.choice([[1], [2], [3], [1, 2], [2, 2], [0]])
        n = 1
        for x in shape:
            n *= x
        if prod * (2**n) > cap:
            return None
        return {"s": s, "op": "bool_array", "shape": shape}, [{"t": "b"}] * n
    shape = rng.choice([[1], [2], [3], [2, 1], [1, 2]])
    n = 1
    for x in shape:
        n *= x
    lo = rng.randint(-2, 2)
    hi = lo + rng.randint(0, 2)
    if prod * ((hi - lo + 1) ** n) > cap:
        return None
    return {"s": s, "op": "int_array", "shape": shape, "lo": lo, "hi": hi}, [{"t": "i", "lo": lo, "hi": hi}] * n


def generate_big(rng, tier):
    """Programs too large for exhaustive enumeration (15-30 variables, wide domains, trees of up to
    60 nodes).  Every constraint is made true under a hidden witness, so the program is known to be
    satisfiable; a second family of sessions pins every variable to a value, which turns find_answer
    into a direct evaluation of the constraints on one assignment."""
    huge = rng.random() < 0.15  # puzzle-sized: 60-150 variables, nodes over up to 100 distinct operands, hundreds of constraints
    n = rng.randint(12, 30) if not huge else rng.randint(60, 150)
    decls = []
    for _ in range(n):
        r = rng.random()
        if r < 0.45:
            decls.append({"t": "b"})
        elif r < 0.9:
            lo = rng.randint(-20, 20)
            decls.append({"t": "i", "lo": lo, "hi": lo + rng.randint(0, 30)})
        else:
            lo = rng.choice(refsem.HUGE_BASES)
            decls.append({"t": "i", "lo": lo, "hi": lo + rng.randint(0, 5)})
    witness = refsem.gen_witness(rng, decls)
    g = refsem.Gen(rng, decls)
    g.wide_p = 0.15
    cs = []
    for _ in range(rng.randint(2, 8)):
        c = refsem.gen_constraint(rng, g, rng.choice([5, 10, 20, 40, 60]), witness)
        try:
            ok = refsem.compile_one(c)(tuple(witness))
        except Exception:
            ok = False
        if ok:
            cs.append(c)
    # wide nodes over many DISTINCT variables ("at least one of these 20 cells", "exactly k of them", a long sum)
    bools = [i for i, d in enumerate(decls) if d["t"] == "b"]
    ints = [i for i, d in enumerate(decls) if d["t"] == "i"]
    wide_cap = 24 if not huge else 100
    for _ in range(rng.randint(0, 3) if not huge else rng.randint(2, 5)):
        kind = rng.choice(["fold_or", "fold_and", "count", "nadd", "orn", "andn"])
        if kind in ("nadd",) and len(ints) >= 4:
            items = [["i", i] for i in rng.sample(ints, rng.randint(4, min(len(ints), wide_cap)))]
            node = [rng.choice(["le", "ge", "eq", "ne"]), ["nadd", items], ["c", sum(witness[i[1]] for i in items) + rng.choice([-1, 0, 0, 1])], 0]
        elif len(bools) >= 4:
            picked = rng.sample(bools, rng.randint(4, min(len(bools), wide_cap)))
            items = [["b", i] if rng.random() < 0.8 else ["not", ["b", i], 0] for i in picked]
            if kind == "count":
                node = [rng.choice(["le", "ge", "eq"]), ["count", items, rng.randint(0, 3)], ["c", rng.randint(0, len(items))], 0]
            elif kind in ("orn", "andn"):
                node = [kind, items]
            else:
                node = [kind if kind in ("fold_or", "fold_and") else "fold_or", items, rng.randint(0, 5)]
        else:
            continue
        try:
            if not refsem.compile_one(node)(tuple(witness)):
                node = ["not", node, 0]
            cs.append(node)
        except Exception:
            pass
    if huge:
        # hundreds of tiny constraints (true under the witness) and one deep arithmetic chain
        for _ in range(rng.choice([100, 128, 256, 300, 509, 600])):
            i = rng.randrange(n)
            if decls[i]["t"] == "b":
                j = rng.choice(bools)
                cs.append(["or", ["b", i] if witness[i] else ["not", ["b", i], 0], ["b", j], 0])
            else:
                cs.append([rng.choice(["le", "ge"]), ["i", i], ["c", witness[i]], 0] if rng.random() < 0.7 else ["ne", ["i", i], ["c", witness[i] + rng.choice([-1, 1])], 0])
        if ints:
            k = rng.choice(ints)
            depth = rng.randint(30, 80)
            chain = ["i", k]
            total = witness[k]
            for d_ in range(depth):
                step = rng.randint(-2, 3)
                if rng.random() < 0.5:
                    chain = ["add", chain, ["c", step], 0]
                    total += step
                else:
                    chain = ["sub", chain, ["c", step], 0]
                    total -= step
            cs.append(["eq", chain, ["c", total], 0])
    if huge and rng.random() < 0.6:
        # the number of posted constraints hits a round number exactly (batching boundaries)
        target = rng.choice([64, 128, 255, 256, 257, 512, 1024])
        while len(cs) > target:
            cs.pop(rng.randrange(len(cs)))
        while len(cs) < target:
            i = rng.randrange(n)
            cs.append((["b", i] if witness[i] else ["not", ["b", i], 0]) if decls[i]["t"] == "b" else ["eq", ["i", i], ["c", witness[i]], 0])
    pins = [witness]
    # boundary assignments: all low, all high, one-hot, one-cold
    lowest = [False if d["t"] == "b" else d["lo"] for d in decls]
    highest = [True if d["t"] == "b" else d["hi"] for d in decls]
    pins.append(lowest)
    pins.append(highest)
    for _ in range(rng.randint(1, 4)):
        i = rng.randrange(n)
        hot = list(lowest)
        hot[i] = highest[i]
        pins.append(hot)
        cold = list(highest)
        cold[i] = lowest[i]
        pins.append(cold)
    for _ in range(rng.randint(1, 4)):
        if rng.random() < 0.5:
            # a neighbour of the witness: differs in one or two variables
            p = list(witness)
            for _ in range(rng.randint(1, 2)):
                i = rng.randrange(n)
                p[i] = (not p[i]) if decls[i]["t"] == "b" else rng.randint(decls[i]["lo"], decls[i]["hi"])
            pins.append(p)
        else:
            pins.append(refsem.gen_witness(rng, decls))
    return {"prop": ID, "big": True, "decls": decls, "cs": cs, "pins": pins, "nest": rng.randint(0, 7), "backend": "z3" if rng.random() < 0.9 else "sim"}


def generate(rng, tier, index):
    if rng.random() < 0.08:
        return generate_big(rng, tier)
    n_sessions = 2 if rng.random() < 0.3 else 1
    sessions = [{"backend": "sim" if rng.random() < 0.12 else "z3"} for _ in range(n_sessions)]
    decls = [[] for _ in sessions]
    ops = []
    big = tier == "thorough" and rng.random() < 0.3  # size ramp of the thorough tier
    max_ops = rng.randint(4, 14) if not big else rng.randint(10, 24)
    max_vars = rng.randint(1, 8) if not big else rng.randint(4, 11)
    cap = 4096 if not big else 16384
    budget_hi = rng.choice([4, 8, 12, 18, 25]) if not big else rng.choice([12, 25, 40, 60])
    keys = [set() for _ in range(n_sessions)]
    use_witness = [rng.random() < 0.65 for _ in range(n_sessions)]
    witness = [[] for _ in range(n_sessions)]
    # initial declarations
    for s in range(n_sessions):
        if rng.random() < 0.12:
            # padding: singleton-domain integers so that later variables get two-digit ids
            for _ in range(rng.randint(8, 12) if rng.random() < 0.85 else rng.randint(100, 300)):
                v = rng.randint(-3, 9)
                ops.append({"s": s, "op": "int_var", "lo": v, "hi": v})
                decls[s].append({"t": "i", "lo": v, "hi": v})
            max_vars += len(decls[s])
        for _ in range(rng.randint(1, max(1, max_vars // 2))):
            r = _decl_ops(rng, s, decls[s], cap)
            if r and len(decls[s]) + len(r[1]) <= max_vars:
                ops.append(r[0])
                decls[s].extend(r[1])
        if not decls[s]:
            ops.append({"s": s, "op": "bool_var"})
            decls[s].append({"t": "b"})
    while len(ops) < max_ops:
        s = rng.randrange(n_sessions)
        k = rng.choices(
            ["declare", "ensure", "find_answer", "solve", "add_key", "scribble"],
            weights=[2, 6, 4, 1, 1, 2],
        )[0]
        if k == "declare":
            r = _decl_ops(rng, s, decls[s], cap)
            if r and len(decls[s]) + len(r[1]) <= max_vars:
                ops.append(r[0])
                decls[s].extend(r[1])
        elif k == "ensure":
            g = refsem.Gen(rng, decls[s])
            n = rng.choice([1, 1, 1, 2, 3])
            cs = []
            if use_witness[s]:
                # extend the hidden witness over variables declared since the last ensure
                witness[s] = witness[s] + refsem.gen_witness(rng, decls[s][len(witness[s]) :])
            for _ in range(n):
                c = refsem.gen_constraint(
                    rng, g, rng.randint(1, budget_hi), witness[s] if use_witness[s] else None, allow_lit=rng.random() < 0.05
                )
                cs.append(c)
            ops.append({"s": s, "op": "ensure", "cs": cs, "nest": rng.randint(0, 7)})
        elif k == "find_answer":
            ops.append({"s": s, "op": "find_answer"})
        elif k == "solve":
            ops.append({"s": s, "op": "solve"})
        elif k == "add_key":
            ids = [i for i in range(len(decls[s])) if rng.random() < 0.4 and i not in keys[s]]
            keys[s].update(ids)
            ops.append({"s": s, "op": "add_key", "ids": ids, "form": rng.randint(0, 5)})
        elif k == "scribble":
            i = rng.randrange(len(decls[s]))
            if decls[s][i]["t"] == "b":
                val = rng.choice([True, False, None])
            else:
                val = rng.choice([None, 0, -7, 99, decls[s][i]["lo"], decls[s][i]["hi"] + 1])
            ops.append({"s": s, "op": "scribble", "id": i, "val": val})
    # closing phase: every session gets a final find_answer; some get a pin phase
    for s in range(n_sessions):
        if rng.random() < 0.35:
            vals = []
            cs = []
            for i, d in enumerate(decls[s]):
                if d["t"] == "b":
                    v = rng.random() < 0.5
                    cs.append(["iff", ["b", i], ["T"] if v else ["F"], 0] if rng.random() < 0.5 else (["b", i] if v else ["not", ["b", i], 0]))
                else:
                    v = rng.randint(d["lo"], d["hi"])
                    cs.append(["eq", ["i", i], ["c", v], 0])
                vals.append(v)
            ops.append({"s": s, "op": "ensure", "cs": cs, "nest": 1, "pin": True})
        ops.append({"s": s, "op": "find_answer"})
    ops = add_fault(rng, ops)
    ops = add_rejected(rng, ops)
    ops = add_augmented(rng, ops, n_sessions)
    return {"prop": ID, "sessions": sessions, "ops": ops}


AUG_INT = ("add", "sub")
AUG_BOOL = ("and", "or", "xor")


def add_augmented(rng, ops, n_sessions, p=0.22):
    """User code that keeps a sub-expression object and goes on with an augmented assignment:

        a = x + y;  solver.ensure(a <= 3);  t = a;  t += z;  solver.ensure(t >= 2)

    The DSL's expression nodes are values: the first constraint must keep meaning x + y <= 3.  The
    op is an ordinary `ensure` of two constraints (so the reference model, validity and the reducer
    treat it as such) whose realisation shares the object built for the common sub-tree and extends it
    with += / -= / &= / |= / ^=.  Own stream: the scenarios generated above are what they were."""
    r = random.Random(rng.random())
    if r.random() >= p:
        return ops
    at = [j for j, o in enumerate(ops) if o["op"] in ("find_answer", "ensure") and not o.get("pin")]
    if not at:
        return ops
    j = r.choice(at)
    s = ops[j].get("s", 0)
    decls = decls_after(ops[:j], n_sessions)[s]
    if not decls:
        return ops
    g = refsem.Gen(r, decls)
    if r.random() < 0.65:
        kind = r.choice(AUG_INT)
        top = kind if r.random() < 0.6 else r.choice(AUG_INT)
        base = [top, g.gen_i(r.randint(1, 3)), g.nonlit(g.gen_i(r.randint(1, 3)), "I"), 0]
        ext = g.nonlit(g.gen_i(r.randint(1, 4)), "I")
        c1 = [r.choice(["le", "ge", "ne", "eq", "lt", "gt"]), base, ["c", g.const()], 0]
        c2 = [r.choice(["le", "ge", "ne", "eq", "lt", "gt"]), [kind, base, ext, 0], ["c", g.const()], 0]
    else:
        kind = r.choice(AUG_BOOL)
        top = kind if r.random() < 0.6 else r.choice(AUG_BOOL)
        base = [top, g.gen_b(r.randint(1, 3)), g.nonlit(g.gen_b(r.randint(1, 3)), "B"), 0]
        ext = g.nonlit(g.gen_b(r.randint(1, 4)), "B")
        c1 = ["iff", base, g.leaf_b(True), 0] if r.random() < 0.6 else base
        c2 = ["iff", [kind, base, ext, 0], g.leaf_b(True), 0] if r.random() < 0.6 else [kind, base, ext, 0]
    for c in (c1, c2):
        if not refsem.valid(c, decls, "B"):
            return ops
    aug = {"s": s, "op": "ensure", "cs": [c1, c2], "nest": 0, "aug": {"kind": kind, "split": r.random() < 0.7}}
    return ops[:j] + [aug] + ops[j:]


def _aug_parts(op):
    """(base node in cs[0], extended node in cs[1]) when the op still has the shape add_augmented gave it."""
    a = op.get("aug")
    cs = op["cs"]
    if not a or len(cs) != 2:
        return None
    n0 = cs[0][1] if cs[0][0] in refsem.CMP or cs[0][0] == "iff" else cs[0]
    top1 = cs[1][1] if cs[1][0] in refsem.CMP or cs[1][0] == "iff" else cs[1]
    if not isinstance(top1, list) or not isinstance(n0, list) or len(top1) < 3 or top1[0] != a.get("kind") or top1[0] not in AUG_INT + AUG_BOOL:
        return None
    if top1[1] != n0 or n0[0] not in AUG_INT + AUG_BOOL:
        return None
    return n0, top1


def _ensure_augmented(res, S, op, b):
    import operator

    n0, top1 = _aug_parts(op)
    iop = {"add": operator.iadd, "sub": operator.isub, "and": operator.iand, "or": operator.ior, "xor": operator.ixor}[top1[0]]
    a = b.build(n0)
    b.pre[id(n0)] = a
    b.pre[id(top1[1])] = a
    first = b.build(op["cs"][0])
    split = op["aug"].get("split")
    if split:
        S.solver.ensure(first)
        S.constraints.append(op["cs"][0])
        S.models_cache = None
    t = a
    t = iop(t, b.build(top1[2]))
    b.pre[id(top1)] = t
    second = b.build(op["cs"][1])
    if split:
        S.solver.ensure(second)
        S.constraints.append(op["cs"][1])
    else:
        S.solver.ensure(first, second)
        S.constraints.extend(op["cs"])
    res.hit("perturb:augmented_assignment_on_shared_node:" + top1[0])


def add_rejected(rng, ops, p=0.08):
    """In some sessions the program makes an API call that the Solver rejects (TypeError / ValueError):
    a constraint that is not boolean, an integer array with lo > hi, an answer key that is not a
    variable.  It catches the exception and carries on with the same Solver."""
    r = random.Random(rng.random())  # one draw: the rest of the scenario stream is unchanged
    if r.random() >= p:
        return ops
    at = [j for j, o in enumerate(ops) if o["op"] in ("find_answer", "ensure")]
    if not at:
        return ops
    j = r.choice(at)
    what = r.choice(["ensure_int", "ensure_none", "int_array", "key_bad"])
    rej = {"s": ops[j].get("s", 0), "op": "rejected", "what": what}
    if what == "int_array":
        lo = r.randint(-3, 3)
        rej.update(lo=lo, hi=lo - r.randint(1, 3), n=r.choice([1, 2, 3]))
    return ops[:j] + [rej] + ops[j:]


def add_fault(rng, ops, p=0.1):
    """Fault injection: in one session out of ten the solver behind the seam fails once, inside a
    query that is followed by further queries (SimBackend: dies after a torn write of its result;
    z3: check() answers unknown or raises; Sugar peer: dies without a reply)."""
    r = random.Random(rng.random())  # one draw: the rest of the scenario stream is unchanged
    if r.random() >= p:
        return ops
    at = [j for j, o in enumerate(ops[:-1]) if o["op"] in ("find_answer", "solve")]
    if not at:
        return ops
    j = r.choice(at)
    arm = {"s": ops[j].get("s", 0), "op": "arm_fault", "n": r.choice([1, 1, 1, 2, 3]), "torn": r.randint(0, 4), "kind": r.choice(["unknown", "exception"])}
    return ops[:j] + [arm] + ops[j:]


# --------------------------------------------------------------------------------------
# validity (used by the reducer)
# --------------------------------------------------------------------------------------


def _n_of_shape(shape):
    n = 1
    for x in shape:
        n *= x
    return n


def decls_after(ops, n_sessions):
    decls = [[] for _ in range(n_sessions)]
    for op in ops:
        s = op["s"]
        k = op["op"]
        if k == "bool_var":
            decls[s].append({"t": "b"})
        elif k == "int_var":
            decls[s].append({"t": "i", "lo": op["lo"], "hi": op["hi"]})
        elif k == "bool_array":
            decls[s].extend([{"t": "b"}] * _n_of_shape(op["shape"]))
        elif k == "int_array":
            decls[s].extend([{"t": "i", "lo": op["lo"], "hi": op["hi"]}] * _n_of_shape(op["shape"]))
    return decls


def valid(sc):
    try:
        if sc.get("big"):
            decls = sc["decls"]
            if not decls or not all(len(p) == len(decls) for p in sc["pins"]):
                return False
            for p in sc["pins"]:
                for d, v in zip(decls, p):
                    if d["t"] == "b":
                        if type(v) is not bool:
                            return False
                    elif type(v) is not int or not d["lo"] <= v <= d["hi"]:
                        return False
            return all(refsem.valid(c, decls, "B") for c in sc["cs"])
        n = len(sc["sessions"])
        if n < 1:
            return False
        decls = [[] for _ in range(n)]
        keys = [set() for _ in range(n)]
        for op in sc["ops"]:
            s = op["s"]
            if not 0 <= s < n:
                return False
            k = op["op"]
            if k in ("bool_var", "int_var", "bool_array", "int_array"):
                if k in ("int_var", "int_array") and op["lo"] > op["hi"]:
                    return False
                decls[s] = decls[s] + decls_after([dict(op, s=0)], 1)[0]
                if refsem.domain_product(decls[s]) > 100000:
                    return False
            elif k == "ensure":
                for c in op["cs"]:
                    if not refsem.valid(c, decls[s], "B"):
                        return False
            elif k == "add_key":
                for i in op["ids"]:
                    if not 0 <= i < len(decls[s]) or i in keys[s]:
                        return False
                    keys[s].add(i)
            elif k == "scribble":
                if not 0 <= op["id"] < len(decls[s]):
                    return False
            elif k == "arm_fault":
                if op["n"] < 1 or op.get("torn", 0) < 0:
                    return False
            elif k == "rejected":
                if op["what"] == "key_dup":
                    new = op["new"]
                    if len(set(new)) != len(new) or any(not 0 <= i < len(decls[s]) or i in keys[s] for i in new):
                        return False
                    if not (op["dup"] in keys[s] or op["dup"] in new):
                        return False
                    keys[s].update(new)
                elif op["what"] == "int_array":
                    if op["lo"] <= op["hi"]:
                        return False
                elif op["what"] not in ("ensure_int", "ensure_none", "key_bad"):
                    return False
            elif k not in ("find_answer", "solve"):
                return False
        return True
    except (KeyError, TypeError, IndexError):
        return False


# --------------------------------------------------------------------------------------
# execution
# --------------------------------------------------------------------------------------


class _Session:
    def __init__(self, solver, backend):
        self.solver = solver
        self.backend = backend
        self.vars = []
        self.decls = []
        self.constraints = []  # ASTs posted so far
        self.models_cache = None
        self.keys = set()


def _nest(cs, nest):
    """The ways user code hands constraints to ensure(): positional, a list, nested lists, a
    BoolArray (what `ensure(a <= b)` on arrays passes), a generator, a tuple of tuples."""
    if nest == 0:
        return tuple(cs)
    if nest == 1:
        return (list(cs),)
    if nest == 3:
        from cspuz import array as A
        from cspuz.expr import Expr

        if cs and all(isinstance(c, Expr) for c in cs):
            n = len(cs)
            return (A.BoolArray1D(cs),) if n % 2 else (A.BoolArray2D(cs, (2, n // 2)),)
        return (list(cs),)
    if nest == 4:
        return ((c for c in cs),)
    if nest == 5:
        return (tuple((c,) for c in cs),)
    if nest == 6 and len(cs) >= 1:
        # one-shot iterators NESTED inside a list: a generator per "row"
        k = max(1, len(cs) // 2)
        return ([(c for c in cs[:k]), (c for c in cs[k:])],)
    if nest == 7 and len(cs) >= 1:
        # a map object inside a tuple next to a plain constraint
        return (cs[0], (map(lambda c: c, cs[1:]),))
    if len(cs) >= 2:
        return ([cs[0]], [[cs[1:]]])
    return ([[cs]],)


def key_arg(vars_, ids, form):
    """The ways user code hands variables to add_answer_key()."""
    vs = [vars_[i] for i in ids]
    if form == 1 and vs:
        return tuple(vs)  # positional
    if form == 2 and len(vs) >= 2:
        return ([vs[0], [vs[1:]]],)
    if form in (3, 4, 5) and vs:
        from cspuz import array as A
        from cspuz.expr import BoolVar

        all_b = all(isinstance(v, BoolVar) for v in vs)
        all_i = not any(isinstance(v, BoolVar) for v in vs)
        if not (all_b or all_i):
            return (vs,)
        A1, A2 = (A.BoolArray1D, A.BoolArray2D) if all_b else (A.IntArray1D, A.IntArray2D)
        if form == 3:
            return (A1(vs),)
        n = len(vs)
        if form == 4 and n >= 2 and n % 2 == 0:
            half = n // 2
            others = [v for v in vars_ if isinstance(v, BoolVar) == all_b and all(v is not k for k in vs)]
            if others and ids[0] % 2 == 1:
                # rows 0 and 2 of a three-row grid (strided row slice, full width): the middle row holds other
                # variables of the same sort and must NOT become keys
                grid = A2(vs[:half] + [others[i % len(others)] for i in range(half)] + vs[half:], (3, half))
                return (grid[::2],) if ids[0] % 4 == 1 else (grid[::2, :],)
            # a 2-D array whose cells are exactly the keys (their ids need not be consecutive)
            return (A2(vs, (2, half)),)
        if form == 5 and n >= 2 and n % 2 == 0:
            # a 2-D slice of a wider grid: the rightmost column holds other variables of the same
            # sort and must NOT become keys
            others = [v for v in vars_ if isinstance(v, BoolVar) == all_b and all(v is not k for k in vs)]
            if len(others) >= 1:
                half = n // 2
                grid = A2(vs[:half] + [others[0]] + vs[half:] + [others[-1]], (2, half + 1))
                return (grid[:, 0:half],)
        return (A1(vs),)
    return (vs,)


def run_big(sc) -> RunResult:
    cspuz = core.import_cspuz()
    from cspuz import expr as E

    res = RunResult()
    core.fresh_z3_context()
    res.log("start", ID, sc.get("seed"), "big")
    res.hit("scenario:big_program_with_witness_and_pins")
    decls, cs = sc["decls"], sc["cs"]
    ctx = peers.SimContext(res, policy={"name": "lexmin"}, product_cap=10**9)
    backend = "z3"  # (the enumerating stub cannot serve programs of this size)
    pred = refsem.compile_pred(cs)
    each = [refsem.compile_one(c) for c in cs]
    z3cap = {"cap": 16}

    def session(extra):
        s = cspuz.Solver()
        vs = [s.bool_var() if d["t"] == "b" else s.int_var(d["lo"], d["hi"]) for d in decls]
        b = refsem.Builder(vs)
        if cs:
            s.ensure(*_nest([b.build(c) for c in cs], sc.get("nest", 0)))
        for i, v in extra:
            s.ensure(vs[i] if v is True else ~vs[i] if v is False else vs[i] == v)
        return s, vs

    with peers.counted_z3(z3cap):
        # (1) the program as posted: satisfiable by construction (the witness is a model)
        try:
            z3cap["calls"] = 0
            s, vs = session([])
            r = s.find_answer(backend=backend)
            sols = [v.sol for v in vs]
            res.steps += 1
            res.log("big", "open", r)
            if r is not True:
                res.violate("C01/wrong-sat-verdict", f"find_answer returned {r!r} but the witness {sc['pins'][0]} satisfies all {len(cs)} constraints [z3 big]")
            else:
                bad = _check_assignment(decls, sols)
                if bad:
                    res.violate(bad[0], bad[1] + " [z3 big]")
                elif not pred(tuple(sols)):
                    res.violate("C01/model-violates-constraints", f"sol={sols} violates posted constraint(s) #{[j for j, p in enumerate(each) if not p(tuple(sols))]} [z3 big]")
                else:
                    res.nontrivial = True
        except Exception as e:
            res.violate("C01/unexpected-exception", f"big program: find_answer raised {type(e).__name__}: {str(e)[:200]}")
        # (2) every variable pinned: find_answer evaluates the constraints on that assignment
        for k, pin in enumerate(sc["pins"]):
            want = bool(pred(tuple(pin)))
            try:
                z3cap["calls"] = 0
                s, vs = session(list(enumerate(pin)))
                r = s.find_answer(backend=backend)
                res.steps += 1
                res.log("big", "pin", k, r, want)
                res.hit("pin:" + ("sat" if want else "unsat"))
                if r is not want:
                    res.violate(
                        "C01/wrong-sat-verdict",
                        f"all variables pinned to {pin}: find_answer returned {r!r}, the constraints evaluate to {want} (false ones: #{[j for j, p in enumerate(each) if not p(tuple(pin))]}) [z3 big]",
                    )
                elif r and [v.sol for v in vs] != list(pin):
                    res.violate("C01/model-violates-constraints", f"all variables pinned to {pin} but sol={[v.sol for v in vs]} [z3 big]")
            except Exception as e:
                res.violate("C01/unexpected-exception", f"big program, pinned: find_answer raised {type(e).__name__}: {str(e)[:200]}")
        # (3) wide nodes on their own: the constraint that holds a node over more than 8 literal operands is posted
        # alone and evaluated on assignments that are one-hot / one-cold in the node's OPERAND space at the far
        # positions (last, 13th, 9th), so that an operand that is dropped, duplicated or misplaced decides the verdict
        n_wide = 0
        for j, c in enumerate(cs):
            if n_wide >= 3:
                break
            for items in _wide_literal_nodes(c):
                n_wide += 1
                res.hit("scenario:wide_node_evaluated_alone")
                ks = sorted({len(items) - 1, min(12, len(items) - 1), 8})
                for k in ks:
                    for hot in (True, False):
                        pin = [False if d["t"] == "b" else d["lo"] for d in decls]
                        for jj, (vid, positive) in enumerate(items):
                            truth = (jj == k) == hot  # operand jj is true exactly at k (hot) / false exactly at k (cold)
                            if decls[vid]["t"] == "b":
                                pin[vid] = truth if positive else not truth
                            else:
                                pin[vid] = decls[vid]["hi"] if truth else decls[vid]["lo"]
                        want = bool(each[j](tuple(pin)))
                        try:
                            z3cap["calls"] = 0
                            s1 = cspuz.Solver()
                            vs1 = [s1.bool_var() if d["t"] == "b" else s1.int_var(d["lo"], d["hi"]) for d in decls]
                            s1.ensure(refsem.Builder(vs1).build(c))
                            for i, v in enumerate(pin):
                                s1.ensure(vs1[i] if v is True else ~vs1[i] if v is False else vs1[i] == v)
                            r = s1.find_answer(backend=backend)
                            res.steps += 1
                            res.log("big", "wide", j, k, hot, r, want)
                            if r is not want:
                                res.violate(
                                    "C01/wrong-sat-verdict",
                                    f"constraint #{j} posted alone, all variables pinned so that operand {k} of its {len(items)}-operand node is the only {'true' if hot else 'false'} one: find_answer returned {r!r}, the constraint evaluates to {want} [z3 big]",
                                )
                        except Exception as e:
                            res.violate("C01/unexpected-exception", f"big program, wide node alone: find_answer raised {type(e).__name__}: {str(e)[:200]}")
                break
    res.states.add(hashlib.sha256(repr((decls, cs)).encode()).hexdigest()[:16])
    return res


def _wide_literal_nodes(c):
    """Operand lists [(variable id, positive?)] of the nodes of c that have more than 8 operands, all of them literals
    over distinct variables (b_i, not b_i, i_i)."""
    out = []

    def lit(x):
        if isinstance(x, list) and x and x[0] in ("b", "i"):
            return (x[1], True)
        if isinstance(x, list) and x and x[0] == "not" and isinstance(x[1], list) and x[1][0] == "b":
            return (x[1][1], False)
        return None

    def walk(n):
        if not (isinstance(n, list) and n and isinstance(n[0], str)):
            return
        if n[0] in ("orn", "andn", "fold_or", "fold_and", "count", "nadd") and isinstance(n[1], list) and len(n[1]) > 8:
            lits = [lit(x) for x in n[1]]
            if all(l is not None for l in lits) and len({l[0] for l in lits}) == len(lits):
                out.append(lits)
        for x in n[1:]:
            if isinstance(x, list):
                if x and isinstance(x[0], list):
                    for y in x:
                        walk(y)
                else:
                    walk(x)

    walk(c)
    return out


def _check_assignment(decls, sols):
    for i, (d, val) in enumerate(zip(decls, sols)):
        if val is None:
            return ("C01/sol-missing", f"variable #{i} has sol None after a True answer")
        if d["t"] == "b":
            if type(val) is not bool:
                return ("C01/sol-wrong-type", f"boolean #{i} has sol {val!r} of type {type(val).__name__}")
        else:
            if type(val) is not int:
                return ("C01/sol-wrong-type", f"integer #{i} has sol {val!r} of type {type(val).__name__}")
            if not d["lo"] <= val <= d["hi"]:
                return ("C01/sol-out-of-domain", f"integer #{i} has sol {val} outside [{d['lo']}, {d['hi']}]")
    return None


def run(sc) -> RunResult:
    if sc.get("big"):
        return run_big(sc)
    cspuz = core.import_cspuz()
    from cspuz import expr as E

    res = RunResult()
    core.fresh_z3_context()
    res.log("start", ID, sc.get("seed"))
    ctx = peers.SimContext(res, policy={"name": "lexmin"})
    Sim = peers.make_sim_backend(ctx, E)
    sessions = []
    for sd in sc["sessions"]:
        sessions.append(_Session(cspuz.Solver(), "z3" if sd["backend"] == "z3" else Sim))
    last_s = None
    z3cap = {}
    with peers.counted_z3(z3cap):
        _run_ops(sc, res, sessions, ctx, z3cap)
    return res


def _run_ops(sc, res, sessions, ctx, z3cap):
    import warnings

    last_s = None
    for n_op, op in enumerate(sc["ops"]):
        S = sessions[op["s"]]
        k = op["op"]
        res.steps += 1
        if last_s is not None and last_s != op["s"]:
            res.hit("perturb:interleave")
        last_s = op["s"]
        fired0 = ctx.faults_fired + z3cap.get("faults_fired", 0)
        try:
            if k == "arm_fault":
                # the next query meets a failing solver (whichever seam its session talks to)
                ctx.arm_fault(op["n"], op.get("torn", 0))
                z3cap["fault_in"] = op["n"]
                z3cap["fault_kind"] = op.get("kind", "unknown")
                z3cap["result"] = res
                res.log("op", n_op, "arm_fault", op["n"], op.get("torn", 0), op.get("kind"))
                continue
            if k == "rejected":
                w = op["what"]
                try:
                    if w == "ensure_int":
                        S.solver.ensure(7)
                    elif w == "ensure_none":
                        S.solver.ensure(None)
                    elif w == "int_array":
                        S.solver.int_array(op.get("n", 2), op["lo"], op["hi"])
                    else:
                        S.solver.add_answer_key(5)
                except Exception as e:  # whatever its type, the call was rejected
                    res.hit("fault:api_call_rejected:" + w)
                    res.log("op", n_op, "rejected", w, type(e).__name__)
                    continue
                # accepted after all: what was posted / declared is no longer known
                res.hit("inconclusive:rejected_call_was_accepted:" + w)
                res.inconclusive = True
                res.log("op", n_op, "rejected", w, "accepted")
                return res
            if k == "bool_var":
                S.vars.append(S.solver.bool_var())
                S.decls.append({"t": "b"})
                S.models_cache = None
                if S.constraints:
                    res.hit("perturb:late_declare")
            elif k == "int_var":
                S.vars.append(S.solver.int_var(op["lo"], op["hi"]))
                S.decls.append({"t": "i", "lo": op["lo"], "hi": op["hi"]})
                S.models_cache = None
                if S.constraints:
                    res.hit("perturb:late_declare")
            elif k == "bool_array":
                shape = op["shape"]
                arr = S.solver.bool_array(shape[0] if len(shape) == 1 else tuple(shape))
                S.vars.extend(list(arr))
                S.decls.extend([{"t": "b"}] * _n_of_shape(shape))
                S.models_cache = None
            elif k == "int_array":
                shape = op["shape"]
                arr = S.solver.int_array(shape[0] if len(shape) == 1 else tuple(shape), op["lo"], op["hi"])
                S.vars.extend(list(arr))
                S.decls.extend([{"t": "i", "lo": op["lo"], "hi": op["hi"]}] * _n_of_shape(shape))
                S.models_cache = None
            elif k == "ensure":
                b = refsem.Builder(S.vars)
                if _aug_parts(op) is not None:
                    _ensure_augmented(res, S, op, b)
                else:
                    built = [b.build(c) for c in op["cs"]]
                    S.solver.ensure(*_nest(built, op.get("nest", 0)))
                    S.constraints.extend(op["cs"])
                S.models_cache = None
                for c in op["cs"]:
                    for t in refsem.tags(c):
                        res.hit("op:" + t)
            elif k == "add_key":
                S.solver.add_answer_key(*key_arg(S.vars, op["ids"], op.get("form", 0)))
                S.keys.update(op["ids"])
            elif k == "scribble":
                S.vars[op["id"]].sol = op["val"]
                res.hit("perturb:sol_scribble")
            elif k == "solve":
                # state-changing step only (C02 decides its result); bounded so that a broken
                # refute loop cannot hang the run
                bound = 8 + 3 * sum((2 if S.decls[i]["t"] == "b" else S.decls[i]["hi"] - S.decls[i]["lo"] + 1) for i in S.keys)
                with warnings.catch_warnings():
                    warnings.simplefilter("ignore")
                    ctx.reset_calls()
                    ctx.cap = bound
                    z3cap["calls"] = 0
                    z3cap["cap"] = bound
                    try:
                        r = S.solver.solve(backend=S.backend)
                    except peers.NoReturnWithinBound:
                        r = None
                        res.hit("solve_between_did_not_return_within_bound")
                    finally:
                        ctx.disarm_fault()
                        z3cap["fault_in"] = None
                res.hit("perturb:solve_between")
                res.log("op", n_op, "solve", r)
            elif k == "find_answer":
                ctx.reset_calls()
                ctx.cap = 16
                z3cap["calls"] = 0
                z3cap["cap"] = 16
                try:
                    r = S.solver.find_answer(backend=S.backend)
                finally:
                    ctx.disarm_fault()
                    z3cap["fault_in"] = None
                if ctx.faults_fired + z3cap.get("faults_fired", 0) > fired0:
                    res.hit("fault:absorbed_query_returned")
                _check_find_answer(res, S, r, n_op)
            else:
                raise core.HarnessError(f"unknown op {k}")
        except core.HarnessError:
            raise
        except Exception as e:  # raised by the system under test during a legal operation
            if ctx.faults_fired + z3cap.get("faults_fired", 0) > fired0:
                # the injected failure reached the caller: nothing was claimed, nothing to check;
                # the session goes on and every later query is checked as usual
                res.hit("fault:failure_propagated_to_caller")
                res.log("op", n_op, k, "failed-with-the-solver", type(e).__name__)
                continue
            res.violate(
                "C01/unexpected-exception",
                f"op#{n_op} {k} on session {op['s']} ({sc['sessions'][op['s']]['backend']}) raised {type(e).__name__}: {str(e)[:200]}",
            )
            res.log("op", n_op, k, "exception", type(e).__name__)
            # the session is unusable after a failed solve only in the sense that nothing was
            # learnt; keep going so later operations are still checked.
    return res


def _check_find_answer(res, S, r, n_op):
    if S.models_cache is None:
        S.models_cache = refsem.models(S.decls, S.constraints)
    M = S.models_cache
    total = refsem.domain_product(S.decls)
    res.states.add(hashlib.sha256(repr((S.decls, M)).encode()).hexdigest()[:16])
    if 0 < len(M) < total:
        res.nontrivial = True
    res.hit("find_answer:" + ("sat" if M else "unsat"))
    sols = [v.sol for v in S.vars]
    res.log("op", n_op, "find_answer", r, sols, len(M))
    tagb = "z3" if S.backend == "z3" else "sim"
    check_find_answer(res, "C01", tagb, S.decls, S.constraints, r, sols, n_op, M)


def check_find_answer(res, prop, tagb, decls, constraints, r, sols, n_op, M):
    """The C01 oracle; also used by C03's end-to-end configuration (kinds C03/e2e-...)."""
    pre = f"{prop}/" + ("e2e-" if prop != "C01" else "")
    total = refsem.domain_product(decls)
    if r is not True and r is not False:
        res.violate(pre + "wrong-sat-verdict", f"op#{n_op} find_answer returned {r!r} (not a bool) [{tagb}]")
        return
    if r != bool(M):
        res.violate(
            pre + "wrong-sat-verdict",
            f"op#{n_op} find_answer returned {r} but the reference has {len(M)} models of {total} assignments [{tagb}]",
        )
        return
    if not r:
        return
    for i, (d, val) in enumerate(zip(decls, sols)):
        if val is None:
            res.violate(pre + "sol-missing", f"op#{n_op} variable #{i} has sol None after a True answer [{tagb}]")
            return
        if d["t"] == "b":
            if type(val) is not bool:
                res.violate(pre + "sol-wrong-type", f"op#{n_op} boolean #{i} has sol {val!r} of type {type(val).__name__} [{tagb}]")
                return
        else:
            if type(val) is not int:
                res.violate(pre + "sol-wrong-type", f"op#{n_op} integer #{i} has sol {val!r} of type {type(val).__name__} [{tagb}]")
                return
            if not d["lo"] <= val <= d["hi"]:
                res.violate(pre + "sol-out-of-domain", f"op#{n_op} integer #{i} has sol {val} outside [{d['lo']}, {d['hi']}] [{tagb}]")
                return
    if tuple(sols) not in set(M):
        pred_each = [refsem.compile_one(c) for c in constraints]
        bad = [j for j, p in enumerate(pred_each) if not p(tuple(sols))]
        res.violate(
            pre + "model-violates-constraints",
            f"op#{n_op} sol={sols} violates posted constraint(s) #{bad} [{tagb}]",
        )


# --------------------------------------------------------------------------------------
# shrinking
# --------------------------------------------------------------------------------------


def _map_ids(node, f):
    t = node[0]
    if t in ("b", "i"):
        return [t, f(node[1])]
    out = []
    for x in node:
        if isinstance(x, list) and x and isinstance(x[0], str) and (x[0] in refsem.BOOL_TAGS or x[0] in refsem.INT_TAGS):
            out.append(_map_ids(x, f))
        elif isinstance(x, list):
            out.append([_map_ids(y, f) if (isinstance(y, list) and y and isinstance(y[0], str) and (y[0] in refsem.BOOL_TAGS or y[0] in refsem.INT_TAGS)) else y for y in x])
        else:
            out.append(x)
    return out


def expand_arrays(sc):
    """Replace array declarations by single-variable declarations (same ids)."""
    ops = []
    changed = False
    for op in sc["ops"]:
        if op["op"] == "bool_array":
            changed = True
            ops.extend({"s": op["s"], "op": "bool_var"} for _ in range(_n_of_shape(op["shape"])))
        elif op["op"] == "int_array":
            changed = True
            ops.extend({"s": op["s"], "op": "int_var", "lo": op["lo"], "hi": op["hi"]} for _ in range(_n_of_shape(op["shape"])))
        else:
            ops.append(op)
    if not changed:
        return None
    return dict(sc, ops=ops)


def drop_var(sc, s, vid):
    """Remove single-variable declaration #vid of session s if nothing refers to it."""
    ops = []
    count = 0
    removed = False
    for op in sc["ops"]:
        if op["s"] != s:
            ops.append(op)
            continue
        k = op["op"]
        if k in ("bool_var", "int_var"):
            if count == vid:
                removed = True
                count += 1
                continue
            count += 1
            ops.append(op)
        elif k in ("bool_array", "int_array"):
            return None
        elif k == "ensure":
            for c in op["cs"]:
                if any(i == vid for _, i in refsem.var_ids(c)):
                    return None
            f = lambda i: i - 1 if i > vid else i  # noqa
            ops.append(dict(op, cs=[_map_ids(c, f) for c in op["cs"]]))
        elif k == "add_key":
            ops.append(dict(op, ids=[(i - 1 if i > vid else i) for i in op["ids"] if i != vid]))
        elif k == "scribble":
            if op["id"] == vid:
                continue
            ops.append(dict(op, id=op["id"] - 1 if op["id"] > vid else op["id"]))
        elif k == "rejected" and op.get("what") == "key_dup":
            if vid == op["dup"] or vid in op["new"]:
                return None
            ops.append(dict(op, new=[(i - 1 if i > vid else i) for i in op["new"]], dup=op["dup"] - 1 if op["dup"] > vid else op["dup"]))
        else:
            ops.append(op)
    return dict(sc, ops=ops) if removed else None


def shrink_big(sc):
    cs, pins, decls = sc["cs"], sc["pins"], sc["decls"]
    for c2 in core.ddmin_list(cs):
        yield dict(sc, cs=c2)
    for p2 in core.ddmin_list(pins):
        if p2:
            yield dict(sc, pins=p2)
    # drop the last variable when nothing refers to it
    used = set()
    for c in cs:
        used |= {i for _, i in refsem.var_ids(c)}
    if len(decls) > 1 and (len(decls) - 1) not in used:
        yield dict(sc, decls=decls[:-1], pins=[p[:-1] for p in pins])
    for j, c in enumerate(cs):
        for sm in refsem.shrink_ast(c, "B"):
            yield dict(sc, cs=cs[:j] + [sm] + cs[j + 1 :])
    if sc.get("nest", 0):
        yield dict(sc, nest=0)


def shrink_candidates(sc):
    if sc.get("big"):
        yield from shrink_big(sc)
        return
    ops = sc["ops"]
    # 1. fewer sessions
    if len(sc["sessions"]) > 1:
        for keep in range(len(sc["sessions"])):
            yield {
                "prop": ID,
                "sessions": [sc["sessions"][keep]],
                "ops": [dict(o, s=0) for o in ops if o["s"] == keep],
                "seed": sc.get("seed"),
            }
    # 2. fewer operations
    for cand in core.ddmin_list(ops):
        yield dict(sc, ops=cand)
    # 3. arrays -> scalars, then unreferenced scalars away
    e = expand_arrays(sc)
    if e is not None:
        yield e
    decls = decls_after(ops, len(sc["sessions"]))
    for s in range(len(sc["sessions"])):
        for vid in reversed(range(len(decls[s]))):
            c = drop_var(sc, s, vid)
            if c is not None:
                yield c
    # 4. smaller constraint lists and trees
    for n, op in enumerate(ops):
        if op["op"] == "ensure":
            for cs in core.ddmin_list(op["cs"]):
                if cs:
                    yield dict(sc, ops=ops[:n] + [dict(op, cs=cs)] + ops[n + 1 :])
            for j, c in enumerate(op["cs"]):
                for sm in refsem.shrink_ast(c, "B"):
                    yield dict(sc, ops=ops[:n] + [dict(op, cs=op["cs"][:j] + [sm] + op["cs"][j + 1 :])] + ops[n + 1 :])
            if op.get("nest", 0) != 0:
                yield dict(sc, ops=ops[:n] + [dict(op, nest=0)] + ops[n + 1 :])
        elif op["op"] == "int_var":
            for lo in core.shrink_int(op["lo"]):
                if lo <= op["hi"]:
                    yield dict(sc, ops=ops[:n] + [dict(op, lo=lo)] + ops[n + 1 :])
            for hi in core.shrink_int(op["hi"], op["lo"]):
                if hi >= op["lo"]:
                    yield dict(sc, ops=ops[:n] + [dict(op, hi=hi)] + ops[n + 1 :])
