"""C20 - The backend and encoding actually used are the ones configured.

Configuration is process-global state read at *call* time, fed at *import* time by the
environment and by which backend modules are importable.  The simulator owns the environment,
module importability, process "restarts" (purge + re-import of cspuz: only the environment and
the installed modules survive; assigned config attributes are lost), the order of assignments
vs calls, and recording fakes behind every external entry point.  Oracle: a small executable
model of the documented precedence rules (Appendix D of DESIGN.md).
"""

from __future__ import annotations

import random
import os
import sys
import warnings

from sim import core, peers
from sim.core import RunResult

ID = "C20"
TIERS = {"quick": 4000, "thorough": 60000}
RULE = (
    "each run = one seeded history of 6-22 operations: setenv/unsetenv of the four CSPUZ_* variables (every backend name, auto, "
    "unknown names; accepted and rejected boolean spellings), install/remove of cspuz_core / enigma_csp / pycsugar / z3, restart "
    "(purge + re-import), Config(infer_from_env=...) probes, config attribute assignments, find_answer/solve with backend omitted / "
    "each name / unknown / a class, and six graph constraints with use_graph_primitive omitted / True / False; non-trivial = at least "
    "one restart and one dispatched call or graph constraint after it; distinct = distinct event-log SHA-256"
    '; fault injection: the recipient of one call in twelve (external process, extension module, given backend class) dies during the call; division_connected is called with an array, a list and a tuple in turn'
)
STATE_MEASURE = "distinct (durable state, volatile config) pairs of the reference model at operation time"
COMPONENTS = {
    "real": ["cspuz.configuration (at import and via Config(infer_from_env))", "cspuz.solver._get_backend*", "cspuz.graph (use_graph_primitive is None branches)", "the five sugar_like._call_solver entry points", "Z3Backend.__init__ lazy import"],
    "stub": ["os.environ contents", "importability of cspuz_core / enigma_csp / pycsugar / z3 (sys.modules entries and a sys.meta_path finder: importable, absent, broken install, lazy first import)", "recording fakes: extension solver() functions, subprocess.run, z3.Solver.check wrapper", "Sugar-protocol peer answering the recorded calls"],
}
ASSUMPTIONS = [
    "only unambiguous boolean spellings are used: true/false/1/0 in any case must parse; '', '2', 'tru', 'maybe' must be rejected; yes/no/on/off are never generated",
    "a failed restart leaves the process down in the model until the next restart",
    "ImportError for a named-but-missing backend module is accepted; active_edges_single_path with the primitive off may raise RuntimeError (documented TODO)",
    "config.default_backend is never assigned 'auto' after import (auto is resolved when Config is constructed)",
]

ENV_KEYS = ["CSPUZ_DEFAULT_BACKEND", "CSPUZ_BACKEND_PATH", "CSPUZ_USE_GRAPH_PRIMITIVE", "CSPUZ_USE_GRAPH_DIVISION_PRIMITIVE"]
NAMES = ["sugar", "sugar_extended", "z3", "csugar", "enigma_csp", "cspuz_core"]
MODS = ["cspuz_core", "enigma_csp", "pycsugar", "z3"]
TRUE_SPELL = ["true", "True", "TRUE", "1", "tRuE"]
FALSE_SPELL = ["false", "False", "FALSE", "0"]
GARBAGE = ["", "2", "tru", "maybe", " true", "none", "-1", "t"]
GRAPH_FNS = [
    "avc", "avc_acyclic", "division_connected", "single_cycle", "single_path", "crossable", "cycle_crossable", "with_borders",
    "avc_grid", "avc_grid_acyclic", "with_borders_grid", "single_cycle_grid", "single_path_grid", "division_connected_grid",
    "avc_list", "single_cycle_list", "division_connected_roots",
]
RECIPIENT = {"z3": "z3", "sugar": "subprocess", "sugar_extended": "subprocess", "csugar": "pycsugar", "enigma_csp": "enigma_csp", "cspuz_core": "cspuz_core"}
MOD_OF = {"z3": "z3", "csugar": "pycsugar", "enigma_csp": "enigma_csp", "cspuz_core": "cspuz_core"}


# --------------------------------------------------------------------------------------
# generation
# --------------------------------------------------------------------------------------


def _gen_env_val(rng, key):
    if key == "CSPUZ_DEFAULT_BACKEND":
        return rng.choice(NAMES + NAMES + ["auto", "auto", "auto", "foo", "Z3", "", "sugar-extended", " z3", "z3\n", "AUTO"])
    if key == "CSPUZ_BACKEND_PATH":
        return rng.choice(["/opt/x/sugar", "sugar_ext.sh", "", "/usr/local/bin/csugar"])
    r = rng.random()
    if r < 0.42:
        return rng.choice(TRUE_SPELL)
    if r < 0.84:
        return rng.choice(FALSE_SPELL)
    return gen_garbage(rng)


def gen_garbage(rng):
    """Strings that strict true/false/1/0 parsing (any letter case) must reject: fixed examples
    plus systematic near-misses of the accepted spellings.  yes/no/on/off are never produced."""
    k = rng.randrange(8)
    base = rng.choice(["true", "false", "1", "0", "True", "FALSE"])
    if k == 0:
        return rng.choice(GARBAGE)
    if k == 1:
        return rng.choice([" ", "\t", "\n"]) + base if rng.random() < 0.5 else base + rng.choice([" ", "\t", "\n", "\r"])
    if k == 2:
        return rng.choice(["01", "00", "10", "11", "001", "+1", "+0", "-0", "1_0", "0_1", "1.0", "0.0", "1e0", "0x1", "0b1", "１", "０"])
    if k == 3:
        return base[: max(1, len(base) - 1)] if len(base) > 1 else base + base
    if k == 4:
        return base + rng.choice(["e", "!", "1", "0", ".", ";", "="])
    if k == 5:
        return rng.choice(["3", "7", "-1", "2", "9"])
    if k == 6:
        return rng.choice(["null", "none", "None", "nil", "enable", "disabled", "truthy", "fals", "tr ue", "t", "f", "y", "n"])
    return rng.choice(['"true"', "'1'", "[1]", "true,false", "TRUE TRUE"])


def generate(rng, tier, index):
    n = rng.randint(6, 22) if not (tier == "thorough" and rng.random() < 0.3) else rng.randint(20, 45)
    # initial durable state
    env = {}
    for k in ENV_KEYS:
        if rng.random() < 0.35:
            env[k] = _gen_env_val(rng, k)
    installed = [m for m in MODS if rng.random() < (0.75 if m == "z3" else 0.3)]
    ops = [{"op": "restart"}]
    for _ in range(n):
        k = rng.choices(
            ["setenv", "unsetenv", "install", "remove", "restart", "probe", "assign", "call", "graph"],
            weights=[3, 1, 2, 2, 3, 1, 3, 6, 6],
        )[0]
        if k == "setenv":
            key = rng.choice(ENV_KEYS)
            ops.append({"op": "setenv", "key": key, "val": _gen_env_val(rng, key)})
            if rng.random() < 0.6:
                ops.append({"op": "restart"})
        elif k == "unsetenv":
            ops.append({"op": "unsetenv", "key": rng.choice(ENV_KEYS)})
        elif k in ("install", "remove"):
            ops.append({"op": k, "mod": rng.choice(MODS)})
            if rng.random() < 0.5:
                ops.append({"op": "restart"})
        elif k == "restart":
            ops.append({"op": "restart"})
        elif k == "probe":
            ops.append({"op": "probe", "infer": rng.random() < 0.7})
            ops.append({"op": "new_solver"})
        elif k == "assign":
            f = rng.choice(["default_backend", "default_backend", "backend_path", "use_graph_primitive", "use_graph_division_primitive"])
            if f == "default_backend":
                v = rng.choice(NAMES + ["foo", "Sugar"])
            elif f == "backend_path":
                v = rng.choice([None, "/tmp/sugar2", ""])
            else:
                v = rng.random() < 0.5
            ops.append({"op": "assign", "field": f, "val": v})
        elif k == "call":
            b = rng.choice([None, None, None] + NAMES + ["foo", "", "<class>", "auto", " z3", "z3 ", "Z3", "default", "Sugar", "cspuz-core", "z3x", "sugar_extended_v2", "cspuz_core2", "csug"])
            ops.append({"op": "call", "kind": rng.choice(["find_answer", "solve"]), "backend": b, "early_solver": rng.random() < 0.4})
        else:
            fn = rng.choice(GRAPH_FNS)
            flag = rng.choice([None, None, True, False])
            if fn.startswith("division_connected"):
                flag = None  # the public function has no per-call override
            ops.append({"op": "graph", "fn": fn, "flag": flag, "same_solver": rng.random() < 0.3})
    # fault injection: one call in twelve meets a recipient that dies during the call (external
    # solver process / extension module / given backend class); the history goes on afterwards
    r2 = random.Random(rng.random())
    for op in ops:
        if op["op"] == "call" and r2.random() < 0.085:
            op["fail"] = True
    # fault injection on the import seam (own stream, so the scenarios above are what they were):
    # a *broken install* is a module that the import system finds but whose import raises ImportError
    # (missing shared library); it is not importable, so the documented rules treat it as absent.
    # `lazy` serves the importable extension modules through a sys.meta_path finder instead of a
    # ready-made sys.modules entry, which is how a real installed module first appears.
    r3 = random.Random(r2.random())
    broken = [m for m in MODS if m != "z3" and m not in installed and r3.random() < 0.2]
    for op in ops:
        if op["op"] == "remove" and op["mod"] != "z3" and r3.random() < 0.4:
            op["op"] = "break"
    lazy = r3.random() < 0.4
    for op in ops:
        if op["op"] == "graph" and op["fn"] in SHAPED_FNS and r3.random() < 0.6:
            op["shape"] = r3.randint(1, 55)
    return {"prop": ID, "env": env, "installed": installed, "broken": broken, "lazy": lazy, "ops": ops}


def valid(sc):
    try:
        for k in sc["env"]:
            if k not in ENV_KEYS:
                return False
        for m in sc["installed"]:
            if m not in MODS:
                return False
        for m in sc.get("broken", []):
            if m not in MODS or m == "z3" or m in sc["installed"]:
                return False
        for op in sc["ops"]:
            k = op["op"]
            if k == "setenv":
                if op["key"] not in ENV_KEYS or not isinstance(op["val"], str):
                    return False
            elif k == "unsetenv":
                if op["key"] not in ENV_KEYS:
                    return False
            elif k in ("install", "remove"):
                if op["mod"] not in MODS:
                    return False
            elif k == "break":
                if op["mod"] not in MODS or op["mod"] == "z3":
                    return False
            elif k == "assign":
                if op["field"] not in ("default_backend", "backend_path", "use_graph_primitive", "use_graph_division_primitive"):
                    return False
                if op["field"] == "default_backend" and op["val"] == "auto":
                    return False
            elif k == "call":
                if op["kind"] not in ("find_answer", "solve"):
                    return False
            elif k == "graph":
                if op["fn"] not in GRAPH_FNS or (op["fn"].startswith("division_connected") and op["flag"] is not None):
                    return False
            elif k not in ("restart", "probe", "new_solver"):
                return False
        return True
    except (KeyError, TypeError):
        return False


# --------------------------------------------------------------------------------------
# the reference model
# --------------------------------------------------------------------------------------


class ConfigError(Exception):
    pass


def model_parse_bool(s):
    t = s.lower()
    if t in ("true", "1"):
        return True
    if t in ("false", "0"):
        return False
    raise ConfigError(s)


def model_config(env, installed, infer=True):
    """The documented rules: returns the four fields or raises ConfigError."""
    e = env if infer else {}
    name = e.get("CSPUZ_DEFAULT_BACKEND", "auto")
    if name == "auto":
        if "cspuz_core" in installed:
            name = "cspuz_core"
        elif "enigma_csp" in installed:
            name = "enigma_csp"
        elif "pycsugar" in installed:
            name = "csugar"
        elif "z3" in installed:
            name = "z3"
        else:
            name = "sugar"
    gp = model_parse_bool(e["CSPUZ_USE_GRAPH_PRIMITIVE"]) if "CSPUZ_USE_GRAPH_PRIMITIVE" in e else name in ("csugar", "enigma_csp", "cspuz_core")
    gdp = (
        model_parse_bool(e["CSPUZ_USE_GRAPH_DIVISION_PRIMITIVE"])
        if "CSPUZ_USE_GRAPH_DIVISION_PRIMITIVE" in e
        else name in ("enigma_csp", "cspuz_core")
    )
    return {
        "default_backend": name,
        "backend_path": e.get("CSPUZ_BACKEND_PATH"),
        "use_graph_primitive": gp,
        "use_graph_division_primitive": gdp,
    }


# --------------------------------------------------------------------------------------
# the simulated process
# --------------------------------------------------------------------------------------


def purge_cspuz():
    for name in list(sys.modules):
        if name == "cspuz" or name.startswith("cspuz."):
            del sys.modules[name]


class _BrokenLoader:
    def create_module(self, spec):
        return None

    def exec_module(self, module):
        raise ImportError(f"lib{module.__name__}.so: cannot open shared object file: No such file or directory")


class _LazyLoader:
    def __init__(self, factory):
        self.factory = factory

    def create_module(self, spec):
        return self.factory()

    def exec_module(self, module):
        pass


class _SimFinder:
    """sys.meta_path entry owned by the simulated process: names in `broken` are found but fail to
    import; names in `lazy` are found and import to the recording fake."""

    def __init__(self, world):
        self.world = world
        self.broken = set()
        self.lazy = set()

    def find_spec(self, name, path=None, target=None):
        import importlib.machinery

        if name in self.broken:
            self.world.res.hit("module:broken-import-attempted")
            return importlib.machinery.ModuleSpec(name, _BrokenLoader())
        if name in self.lazy:
            w = self.world
            return importlib.machinery.ModuleSpec(name, _LazyLoader(lambda: peers.fake_extension_module(name, w.peer, w.recorder)))
        return None


class _World:
    def __init__(self, res):
        self.res = res
        self.recorder = []
        self.peer = peers.SugarPeer(res)
        self.saved_env = {k: os.environ.get(k) for k in ENV_KEYS}
        self.saved_mods = {m: sys.modules.get(m, peers._MISSING) for m in MODS}
        import z3 as real_z3

        self.real_z3 = real_z3
        self.orig_check = real_z3.Solver.check
        world = self

        def check(self_, *a, **kw):
            world.recorder.append(("z3", None))
            return world.orig_check(self_, *a, **kw)

        real_z3.Solver.check = check
        self.cspuz = None
        self.fake_sub = None
        self.finder = _SimFinder(self)
        self.lazy = False
        sys.meta_path.insert(0, self.finder)

    def apply_durable(self, env, installed, broken=()):
        for k in ENV_KEYS:
            if k in env:
                os.environ[k] = env[k]
            else:
                os.environ.pop(k, None)
        self.apply_modules(installed, broken)

    def apply_modules(self, installed, broken=()):
        self.finder.broken = set(broken)
        self.finder.lazy = set()
        for m in MODS:
            if m == "z3":
                sys.modules["z3"] = self.real_z3 if "z3" in installed else None
            elif m in installed:
                cur = sys.modules.get(m)
                if cur is None or not getattr(cur, "__verif_fake__", False):
                    if self.lazy:
                        sys.modules.pop(m, None)
                        self.finder.lazy.add(m)
                    else:
                        sys.modules[m] = peers.fake_extension_module(m, self.peer, self.recorder)
            elif m in broken:
                sys.modules.pop(m, None)  # found by the finder; the import itself fails
            else:
                sys.modules[m] = None

    def restart(self):
        purge_cspuz()
        self.cspuz = None
        try:
            self.cspuz = core.import_cspuz()
        except ValueError:
            purge_cspuz()
            raise
        import cspuz.backend._subproc as sp

        self.fake_sub = peers.FakeSubprocessModule(self.peer, self.recorder)
        peers.patch_subproc(sp, self.fake_sub)  # the module object is thrown away at the next restart
        return self.cspuz

    def close(self):
        self.real_z3.Solver.check = self.orig_check
        if self.finder in sys.meta_path:
            sys.meta_path.remove(self.finder)
        for k, v in self.saved_env.items():
            if v is None:
                os.environ.pop(k, None)
            else:
                os.environ[k] = v
        for m, v in self.saved_mods.items():
            if v is peers._MISSING:
                sys.modules.pop(m, None)
            else:
                sys.modules[m] = v
        sys.modules["z3"] = self.real_z3
        purge_cspuz()
        core.import_cspuz()


def _has_native(cspuz, constraints):
    from cspuz.expr import Op, Expr

    def walk(e):
        if isinstance(e, Expr):
            if e.op in (Op.GRAPH_ACTIVE_VERTICES_CONNECTED, Op.GRAPH_DIVISION):
                return True
            return any(walk(x) for x in e.operands)
        return False

    return any(walk(c) for c in constraints)


# graph shapes for the vertex-connectivity calls (4 vertices each) and board shapes for their grid forms;
# index 0 is the shape every other call uses.  Forests (paths, stars, edgeless, 1xN boards) are here
# because "never native for acyclic connectivity" has to hold on them too.
GRAPH_SHAPES = [
    ((0, 1), (1, 2), (2, 3), (3, 0)),
    ((0, 1), (1, 2), (2, 3)),
    ((0, 1), (0, 2), (0, 3)),
    ((0, 1), (2, 3)),
    (),
    ((0, 1), (0, 1), (1, 2)),
    ((0, 1), (0, 2), (0, 3), (1, 2), (1, 3), (2, 3)),
    ((2, 3),),
]
GRID_SHAPES = [(2, 2), (1, 4), (4, 1), (1, 1), (2, 3), (1, 2), (3, 1)]
SHAPED_FNS = ("avc", "avc_acyclic", "avc_list", "avc_grid", "avc_grid_acyclic")


def _call_graph(cspuz, fn, flag, solver=None, variant=0, shape=0):
    from cspuz import graph as G

    s = solver if solver is not None else cspuz.Solver()
    g = G.Graph(4)
    for u, v in GRAPH_SHAPES[shape % len(GRAPH_SHAPES) if fn in SHAPED_FNS else 0]:
        g.add_edge(u, v)
    board = GRID_SHAPES[shape % len(GRID_SHAPES) if fn in SHAPED_FNS else 0]
    kw = {} if flag is None else {"use_graph_primitive": flag}
    if fn == "avc":
        G.active_vertices_connected(s, s.bool_array(4), graph=g, **kw)
    elif fn == "avc_acyclic":
        G.active_vertices_connected(s, s.bool_array(4), graph=g, acyclic=True, **kw)
    elif fn == "division_connected":
        # the documented argument type is Sequence[IntExprLike] | IntArray1D: array, list and tuple in turn
        d = s.int_array(4, 0, 1)
        G.division_connected(s, d if variant % 3 == 0 else list(d) if variant % 3 == 1 else tuple(d), 2, graph=g)
    elif fn == "single_cycle":
        G.active_edges_single_cycle(s, s.bool_array(4), g, **kw)
    elif fn == "single_path":
        G.active_edges_single_path(s, s.bool_array(4), g, **kw)
    elif fn == "crossable":
        G.active_edges_connected_crossable(s, cspuz.BoolGridFrame(s, 1, 1), **kw)
    elif fn == "cycle_crossable":
        G.active_edges_single_cycle_crossable(s, cspuz.BoolGridFrame(s, 1, 1), **kw)
    elif fn == "avc_list":
        G.active_vertices_connected(s, list(s.bool_array(4)), graph=g, **kw)
    elif fn == "single_cycle_list":
        G.active_edges_single_cycle(s, list(s.bool_array(4)), g, **kw)
    elif fn == "division_connected_roots":
        G.division_connected(s, s.int_array(4, 0, 1), 2, graph=g, roots=[0, None], allow_empty_group=True)
    elif fn == "avc_grid":
        G.active_vertices_connected(s, s.bool_array(board), **kw)
    elif fn == "avc_grid_acyclic":
        G.active_vertices_connected(s, s.bool_array(board), acyclic=True, **kw)
    elif fn == "single_cycle_grid":
        G.active_edges_single_cycle(s, cspuz.BoolGridFrame(s, 1, 1), **kw)
    elif fn == "single_path_grid":
        G.active_edges_single_path(s, cspuz.BoolGridFrame(s, 1, 1), **kw)
    elif fn == "division_connected_grid":
        G.division_connected(s, s.int_array((2, 2), 0, 1), 2)
    elif fn == "with_borders_grid":
        from cspuz.grid_frame import BoolInnerGridFrame

        G.division_connected_variable_groups_with_borders(s, group_size=s.int_array((2, 2), 1, 4), is_border=BoolInnerGridFrame(s, 2, 2), **kw)
    elif fn == "with_borders":
        G.division_connected_variable_groups_with_borders(s, group_size=[None, 2, None, None], is_border=s.bool_array(4), graph=g, **kw)
    else:
        raise core.HarnessError(fn)
    return s


# --------------------------------------------------------------------------------------
# execution
# --------------------------------------------------------------------------------------


def run(sc) -> RunResult:
    res = RunResult()
    core.fresh_z3_context()
    _LAST_SOLVER.clear()
    _EARLY.clear()
    res.log("start", ID, sc.get("seed"))
    env = dict(sc["env"])
    installed = set(sc["installed"])
    broken = set(sc.get("broken", []))
    up = False
    cfg = None
    z3_cached = False
    restarted = False
    world = _World(res)
    world.lazy = bool(sc.get("lazy"))
    try:
        with warnings.catch_warnings():
            warnings.simplefilter("ignore")
            for n_op, op in enumerate(sc["ops"]):
                k = op["op"]
                res.steps += 1
                res.states.add(core.digest([sorted(env.items()), sorted(installed), sorted(broken), up, cfg])[:16])
                if k == "setenv":
                    env[op["key"]] = op["val"]
                    os.environ[op["key"]] = op["val"]
                    res.hit("env:set:" + op["key"])
                    continue
                if k == "unsetenv":
                    env.pop(op["key"], None)
                    os.environ.pop(op["key"], None)
                    res.hit("env:unset")
                    continue
                if k == "install":
                    installed.add(op["mod"])
                    broken.discard(op["mod"])
                    world.apply_modules(installed, broken)
                    res.hit("module:install:" + op["mod"])
                    continue
                if k == "remove":
                    installed.discard(op["mod"])
                    broken.discard(op["mod"])
                    world.apply_modules(installed, broken)
                    res.hit("module:remove:" + op["mod"])
                    continue
                if k == "break":
                    installed.discard(op["mod"])
                    broken.add(op["mod"])
                    world.apply_modules(installed, broken)
                    res.hit("fault:module-install-broken:" + op["mod"])
                    continue
                if k == "restart":
                    world.apply_durable(env, installed, broken)
                    z3_cached = False
                    try:
                        want = model_config(env, installed)
                        want_err = None
                    except ConfigError as e:
                        want, want_err = None, e
                    try:
                        cspuz = world.restart()
                        got_err = None
                    except ValueError as e:
                        cspuz, got_err = None, e
                    except Exception as e:
                        res.violate("C20/unexpected-exception", f"op#{n_op} restart with env {env} raised {type(e).__name__}: {str(e)[:120]}")
                        up = False
                        continue
                    res.log("op", n_op, "restart", sorted(env.items()), sorted(installed), None if got_err is None else "ValueError")
                    if want_err is not None:
                        res.hit("probe:restart_with_unparsable_env")
                        if got_err is None:
                            res.violate(
                                "C20/lenient-boolean",
                                f"op#{n_op} import succeeded although the environment holds the unparsable boolean {str(want_err)!r} (env {env}); flags became {cspuz.config.use_graph_primitive!r}/{cspuz.config.use_graph_division_primitive!r}",
                            )
                        up = False
                        cfg = None
                        continue
                    if got_err is not None:
                        if want["default_backend"] not in NAMES:
                            # "unknown names are rejected with ValueError": rejecting already at import is fine
                            res.hit("restart:unknown_name_rejected_at_import")
                        else:
                            res.violate("C20/unexpected-exception", f"op#{n_op} import failed with ValueError({got_err}) for a well-formed environment {env}")
                        up = False
                        cfg = None
                        continue
                    up = True
                    restarted = True
                    cfg = want
                    res.hit("restart:default_backend=" + str(want["default_backend"]))
                    _compare_cfg(res, n_op, "restart", cspuz.config, cfg, env, installed)
                    continue
                if not up:
                    res.hit("skipped_while_down")
                    continue
                cspuz = world.cspuz
                if k == "probe":
                    from cspuz.configuration import Config

                    try:
                        want = model_config(env, installed, infer=op["infer"])
                        want_err = None
                    except ConfigError as e:
                        want, want_err = None, e
                    try:
                        c = Config(infer_from_env=op["infer"])
                        got_err = None
                    except ValueError as e:
                        c, got_err = None, e
                    res.log("op", n_op, "probe", op["infer"], None if got_err is None else "ValueError")
                    res.hit("probe:Config(infer_from_env=%s)" % op["infer"])
                    if want_err is not None:
                        if got_err is None:
                            res.violate("C20/lenient-boolean", f"op#{n_op} Config() accepted the unparsable boolean {str(want_err)!r} (env {env})")
                    elif got_err is not None:
                        if want["default_backend"] not in NAMES:
                            res.hit("probe:unknown_name_rejected_at_construction")
                        else:
                            res.violate("C20/unexpected-exception", f"op#{n_op} Config(infer_from_env={op['infer']}) raised ValueError({got_err}) for env {env}")
                    else:
                        _compare_cfg(res, n_op, f"Config(infer_from_env={op['infer']})", c, want, env, installed)
                        # a second Config object is its own object: scribbling on it must not reach cspuz.config
                        for f_, junk in (("backend_path", "/probe/only"), ("use_graph_primitive", not want["use_graph_primitive"]), ("use_graph_division_primitive", not want["use_graph_division_primitive"])):
                            try:
                                setattr(c, f_, junk)
                            except Exception:
                                pass
                        _compare_cfg(res, n_op, "scribbling on a second Config object", cspuz.config, cfg, env, installed)
                    continue
                if k == "new_solver":
                    # Solver objects made now and used by later calls / graph constraints: whatever is
                    # configured between construction and use must still count
                    _EARLY["cspuz"] = cspuz
                    _EARLY["call"] = _small_program(cspuz)
                    _LAST_SOLVER["s"] = cspuz.Solver()
                    _LAST_SOLVER["cspuz"] = cspuz
                    res.hit("solver_constructed_ahead_of_use")
                    continue
                if k == "assign":
                    try:
                        setattr(cspuz.config, op["field"], op["val"])
                    except ValueError:
                        if op["field"] == "default_backend" and op["val"] not in NAMES:
                            res.hit("assign:unknown_name_rejected_at_assignment")
                            continue
                        raise
                    cfg[op["field"]] = op["val"]
                    res.hit("assign:" + op["field"])
                    res.log("op", n_op, "assign", op["field"], op["val"])
                    continue
                if k == "call":
                    z3_cached = _do_call(res, world, cspuz, n_op, op, cfg, installed, z3_cached)
                    if restarted:
                        res.nontrivial = True
                    _compare_cfg(res, n_op, "call", cspuz.config, cfg, env, installed)
                    continue
                if k == "graph":
                    _do_graph(res, cspuz, n_op, op, cfg)
                    if restarted:
                        res.nontrivial = True
                    _compare_cfg(res, n_op, "graph", cspuz.config, cfg, env, installed)
                    continue
                raise core.HarnessError(f"unknown op {k}")
    finally:
        world.close()
    return res


def _compare_cfg(res, n_op, where, config, cfg, env, installed):
    for f in ("default_backend", "backend_path", "use_graph_primitive", "use_graph_division_primitive"):
        got = getattr(config, f, "<missing>")
        want = cfg[f]
        if got != want or (isinstance(want, bool) and type(got) is not bool):
            res.violate(
                "C20/config-field-differs",
                f"op#{n_op} after {where}: config.{f} is {got!r}, the documented rules give {want!r} (env {dict(sorted(env.items()))}, importable {sorted(installed)})",
            )
            return


def _do_call(res, world, cspuz, n_op, op, cfg, installed, z3_cached):
    from cspuz import expr as E

    barg = op["backend"]
    kind = op["kind"]
    ctx = peers.SimContext(res)
    Sim = peers.make_sim_backend(ctx, E)
    if op.get("early_solver") and _EARLY.get("cspuz") is cspuz and _EARLY.get("call") is not None:
        s = _EARLY["call"]
        res.hit("call:solver_constructed_before_config_changes")
    else:
        s = _small_program(cspuz)
    rec = world.recorder
    del rec[:]
    n_recv = len(world.peer.received)
    world.peer.calls = 0
    world.peer.cap = 12
    kw = {}
    if barg == "<class>":
        kw["backend"] = Sim
    elif barg is not None:
        kw["backend"] = barg
    exc = None
    f0 = world.peer.faults_fired
    if op.get("fail"):
        world.peer.fault_in = 1
        ctx.arm_fault(1)
    try:
        r = getattr(s, kind)(**kw)
    except Exception as e:  # classified below
        exc = e
        r = None
    finally:
        world.peer.fault_in = None
    fired = world.peer.faults_fired > f0 or ctx.faults_fired > 0
    recipients = sorted({e[0] for e in rec})
    res.log("op", n_op, "call", kind, barg, cfg["default_backend"], recipients, type(exc).__name__ if exc else r)
    tag = f"op#{n_op} {kind}(backend={barg!r}) with config.default_backend={cfg['default_backend']!r}"
    if barg == "<class>":
        res.hit("call:class")
        if fired:
            res.hit("fault:recipient_died_during_call")
        if exc is not None and not fired:
            res.violate("C20/unexpected-exception", f"{tag} raised {type(exc).__name__}: {str(exc)[:100]}")
        elif ctx.instances < 1 or recipients:
            res.violate("C20/wrong-recipient", f"{tag}: the given backend class was instantiated {ctx.instances} times and external entry points {recipients} were used")
        return z3_cached
    b = barg if barg is not None else cfg["default_backend"]
    res.hit("call:" + ("explicit" if barg is not None else "default"))
    if b not in NAMES:
        res.hit("call:unknown_name")
        if recipients:
            res.violate("C20/called-despite-error", f"{tag}: unknown backend name {b!r} but {recipients} was invoked")
        elif not isinstance(exc, ValueError):
            res.violate("C20/missing-valueerror", f"{tag}: unknown backend name {b!r} must be rejected with ValueError, got {type(exc).__name__ if exc else 'return value ' + repr(r)}")
        return z3_cached
    want = RECIPIENT[b]
    res.hit("recipient:" + b)
    mod = MOD_OF.get(b)
    available = mod is None or mod in installed or (b == "z3" and z3_cached)
    if fired:
        # the injected death happened inside some recipient: it must have been the configured one
        res.hit("fault:recipient_died_during_call")
        if recipients != [want]:
            res.violate("C20/wrong-recipient", f"{tag}: expected the solve to reach {want}, recorder shows {recipients or 'nobody'} (the recipient died during the call)")
        elif want == "subprocess":
            argv0 = [e[1][0] for e in rec]
            expect0 = cfg["backend_path"] or "sugar"
            if any(a != expect0 for a in argv0):
                res.violate("C20/wrong-argv", f"{tag}: subprocess argv[0] {argv0} but config.backend_path is {cfg['backend_path']!r} (expected {expect0!r})")
        return z3_cached
    if exc is not None:
        if isinstance(exc, ImportError) and not available:
            res.hit("call:module_missing_importerror")
            if recipients:
                res.violate("C20/called-despite-error", f"{tag}: ImportError but {recipients} was invoked")
            return z3_cached
        res.violate("C20/unexpected-exception", f"{tag} raised {type(exc).__name__}: {str(exc)[:100]} (expected recipient {want})")
        return z3_cached
    if recipients != [want]:
        if not available and not recipients:
            res.violate("C20/wrong-recipient", f"{tag}: module for {b} is not importable, yet the call returned {r!r} without ImportError")
        else:
            res.violate("C20/wrong-recipient", f"{tag}: expected the solve to reach {want}, recorder shows {recipients or 'nobody'}")
        return z3_cached
    if want == "subprocess":
        argv0 = [e[1][0] for e in rec]
        expect0 = cfg["backend_path"] or "sugar"
        if any(a != expect0 for a in argv0):
            res.violate("C20/wrong-argv", f"{tag}: subprocess argv[0] {argv0} but config.backend_path is {cfg['backend_path']!r} (expected {expect0!r})")
            return z3_cached
    if want != "z3":
        texts = [t for (_, t, _) in world.peer.received[n_recv:]]
        has_key_line = any(any(line.startswith("#") for line in t.split("\n")) for t in texts)
        expect_key_line = kind == "solve" and b != "sugar"
        if has_key_line != expect_key_line:
            res.violate("C20/mode-line-unexpected", f"{tag}: deduction-mode key line {'sent' if has_key_line else 'not sent'} to {b}")
            return z3_cached
    return z3_cached or b == "z3"


_LAST_SOLVER = {}
_EARLY = {}


def _small_program(cspuz):
    s = cspuz.Solver()
    x = s.bool_var()
    y = s.bool_var()
    s.ensure(x | y)
    s.ensure(~y)
    s.add_answer_key(x, y)
    return s


def _do_graph(res, cspuz, n_op, op, cfg):
    fn, flag = op["fn"], op["flag"]
    field = "use_graph_division_primitive" if fn in ("with_borders", "with_borders_grid") else "use_graph_primitive"
    use = flag if flag is not None else cfg[field]
    expect_native = bool(use) and fn not in ("avc_acyclic", "avc_grid_acyclic")
    tag = f"op#{n_op} {fn}(use_graph_primitive={flag!r}) with config.{field}={cfg[field]!r}"
    res.hit(f"graph:{fn}:" + ("explicit" if flag is not None else "default"))
    if op.get("shape", 0) and fn in SHAPED_FNS:
        res.hit("graph:shape:" + str(GRID_SHAPES[op["shape"] % len(GRID_SHAPES)] if "grid" in fn else op["shape"] % len(GRAPH_SHAPES)))
    reuse = _LAST_SOLVER.get("s") if op.get("same_solver") else None
    if reuse is not None and _LAST_SOLVER.get("cspuz") is not cspuz:
        reuse = None  # the process was restarted since
    n_before = len(list(reuse.constraints)) if reuse is not None else 0
    if reuse is not None:
        res.hit("graph:same_solver_as_previous_call")
    try:
        s = _call_graph(cspuz, fn, flag, reuse, variant=n_op, shape=op.get("shape", 0))
        _LAST_SOLVER["s"] = s
        _LAST_SOLVER["cspuz"] = cspuz
    except RuntimeError as e:
        if fn in ("single_path", "single_path_grid") and not use:
            res.hit("graph:single_path_todo_runtimeerror")
            res.log("op", n_op, "graph", fn, flag, "RuntimeError")
            return
        res.violate("C20/unexpected-exception", f"{tag} raised RuntimeError: {e}")
        return
    except Exception as e:
        res.violate("C20/unexpected-exception", f"{tag} raised {type(e).__name__}: {str(e)[:100]}")
        return
    native = _has_native(cspuz, list(s.constraints)[n_before:])
    res.log("op", n_op, "graph", fn, flag, cfg[field], native)
    res.hit("graph:native" if native else "graph:encoded")
    if fn in ("avc_acyclic", "avc_grid_acyclic") and native:
        res.violate("C20/native-used-for-acyclic", f"{tag}: acyclic connectivity was emitted as a native graph operator")
    elif native != expect_native:
        res.violate(
            "C20/native-flag-ignored",
            f"{tag}: native operator {'emitted' if native else 'not emitted'}, expected {'native' if expect_native else 'the encoded form'}",
        )


# --------------------------------------------------------------------------------------
# shrinking
# --------------------------------------------------------------------------------------


def shrink_candidates(sc):
    ops = sc["ops"]
    for cand in core.ddmin_list(ops):
        yield dict(sc, ops=cand)
    for k in list(sc["env"]):
        e = dict(sc["env"])
        del e[k]
        yield dict(sc, env=e)
    for m in sc["installed"]:
        yield dict(sc, installed=[x for x in sc["installed"] if x != m])
    for m in sc.get("broken", []):
        yield dict(sc, broken=[x for x in sc["broken"] if x != m])
    if sc.get("lazy"):
        yield dict(sc, lazy=False)
    for n, op in enumerate(ops):
        if op["op"] == "break":
            yield dict(sc, ops=ops[:n] + [dict(op, op="remove")] + ops[n + 1 :])
    for n, op in enumerate(ops):
        if op["op"] == "graph" and op["flag"] is not None and op["fn"] != "avc":
            yield dict(sc, ops=ops[:n] + [dict(op, fn="avc")] + ops[n + 1 :])
        if op["op"] == "graph" and op.get("shape"):
            yield dict(sc, ops=ops[:n] + [{k: v for k, v in op.items() if k != "shape"}] + ops[n + 1 :])
        if op["op"] == "graph" and op.get("same_solver"):
            yield dict(sc, ops=ops[:n] + [dict(op, same_solver=False)] + ops[n + 1 :])
        if op["op"] == "call" and op["kind"] == "solve":
            yield dict(sc, ops=ops[:n] + [dict(op, kind="find_answer")] + ops[n + 1 :])
