"""C18 - Segmentation builder only ever produces valid room partitions.

Real code: SegmentationBuilder2D.initial / candidates / copy_with_update, split_block,
_is_connected.  The simulator owns every random draw (Python's global ``random`` is seeded by
the scenario and counted at the seam; the deterministic PRNG of the generator package too) and
the schedule: which proposed update is applied at each step of the walk.
"""

from __future__ import annotations

import copy
import hashlib
import random as pyrandom

from sim import core
from sim.core import RunResult

ID = "C18"
TIERS = {"quick": 20000, "thorough": 300000}
RULE = (
    "each run = one seeded configuration (board 1x1..5x5; 30% crafted initial partitions - rings with a hole, boustrophedon "
    "snakes, spirals, combs, stripes - on boards up to 8x8, some with tight bounds min=max; thorough ramp: boards up to 8x8 "
    "with walks of 80 steps; min/max block count and size each possibly unset and drawn around a feasible target partition, "
    "initial_blocks absent / the target / another full partition, allow_unmet_constraints_first on/off, Python-random or "
    "deterministic PRNG) and a walk of <=40 steps; at every step up to 48 proposed updates are applied to the current value "
    "(breadth) and one, chosen by the scenario, becomes the next value (depth); non-trivial = the walk applied at least one "
    "merge, one split and one move; distinct = distinct event-log SHA-256"
    '; fault injection in 8% of the runs: the random source raises at the k-th draw of initial() or of candidates() at one step; the same builder is asked again and the walk may resume from one of the three previous values'
)
STATE_MEASURE = "distinct canonical partitions (sorted blocks of sorted cells) reached, per board size"
COMPONENTS = {
    "real": ["cspuz.generator.segmentation.SegmentationBuilder2D", "split_block", "_is_connected", "cspuz.generator.srandom / deterministic_random (when the deterministic PRNG is on)"],
    "stub": ["none (the PRNG is real code, seeded and counted by the simulator)"],
}
ASSUMPTIONS = [
    "bounds are asserted for returned values only, and as a closed set when allow_unmet_constraints_first is on (once inside the bounds, every successor is)",
    "initial_blocks handed to the builder are always full partitions into connected blocks",
    "an initial() that does not return within the draw budget, or that finds no candidate, is inconclusive, not a violation",
]

DRAW_BUDGET = 60000


class Interrupted(Exception):
    """Injected fault: the random source fails in the middle of a builder call (stands for an
    interrupted generation); the caller catches it and keeps using the same builder object."""


class DrawBudgetExceeded(Exception):
    pass


# --------------------------------------------------------------------------------------
# generation
# --------------------------------------------------------------------------------------


def random_partition(rng, h, w, n_blocks):
    cells = [(y, x) for y in range(h) for x in range(w)]
    n_blocks = max(1, min(n_blocks, len(cells)))
    seeds = rng.sample(cells, n_blocks)
    owner = {c: i for i, c in enumerate(seeds)}
    frontier = list(seeds)
    while len(owner) < len(cells):
        c = frontier[rng.randrange(len(frontier))]
        y, x = c
        nb = [(y + dy, x + dx) for dy, dx in ((-1, 0), (1, 0), (0, -1), (0, 1)) if 0 <= y + dy < h and 0 <= x + dx < w and (y + dy, x + dx) not in owner]
        if not nb:
            frontier.remove(c)
            continue
        n = nb[rng.randrange(len(nb))]
        owner[n] = owner[c]
        frontier.append(n)
    blocks = [[] for _ in range(n_blocks)]
    for c in cells:
        blocks[owner[c]].append([c[0], c[1]])
    for b in blocks:
        rng.shuffle(b)
    rng.shuffle(blocks)
    return blocks


def _path_boustrophedon(h, w):
    out = []
    for y in range(h):
        xs = range(w) if y % 2 == 0 else range(w - 1, -1, -1)
        out.extend([y, x] for x in xs)
    return out


def _path_spiral(h, w):
    top, left, bottom, right = 0, 0, h - 1, w - 1
    out = []
    while top <= bottom and left <= right:
        out.extend([top, x] for x in range(left, right + 1))
        out.extend([y, right] for y in range(top + 1, bottom + 1))
        if top < bottom:
            out.extend([bottom, x] for x in range(right - 1, left - 1, -1))
        if left < right:
            out.extend([y, left] for y in range(bottom - 1, top, -1))
        top, left, bottom, right = top + 1, left + 1, bottom - 1, right - 1
    return out


def _cut(rng, path, k):
    k = max(1, min(k, len(path)))
    cuts = sorted(rng.sample(range(1, len(path)), k - 1)) if k > 1 else []
    out, prev = [], 0
    for c in cuts + [len(path)]:
        out.append(path[prev:c])
        prev = c
    return out


def crafted_partition(rng, h, w):
    """Shapes a random walk from one rectangle rarely reaches: rings (blocks with a hole), long
    snakes, spirals, combs, stripes."""
    kind = rng.choice(["ring", "snake", "spiral", "comb", "stripes", "single"])
    if kind == "ring" and h >= 3 and w >= 3:
        blocks = []
        top, left, bottom, right = 0, 0, h - 1, w - 1
        while top <= bottom and left <= right:
            ring = [[y, x] for y in range(top, bottom + 1) for x in range(left, right + 1) if y in (top, bottom) or x in (left, right)]
            blocks.append(ring)
            top, left, bottom, right = top + 1, left + 1, bottom - 1, right - 1
    elif kind == "snake":
        blocks = _cut(rng, _path_boustrophedon(h, w), rng.choice([1, 2, 3, 4]))
    elif kind == "spiral":
        blocks = _cut(rng, _path_spiral(h, w), rng.choice([1, 2, 3]))
    elif kind == "comb" and h >= 2 and w >= 3:
        comb = [[0, x] for x in range(w)] + [[y, x] for x in range(0, w, 2) for y in range(1, h)]
        blocks = [comb] + [[[y, x] for y in range(1, h)] for x in range(1, w, 2)]
    elif kind == "stripes":
        if rng.random() < 0.5:
            blocks = [[[y, x] for x in range(w)] for y in range(h)]
        else:
            blocks = [[[y, x] for y in range(h)] for x in range(w)]
    else:
        blocks = [[[y, x] for y in range(h) for x in range(w)]]
    for b in blocks:
        if rng.random() < 0.7:
            rng.shuffle(b)
    rng.shuffle(blocks)
    return blocks


def generate(rng, tier, index):
    h = rng.choice([1, 1, 2, 2, 3, 3, 3, 4, 4, 5])
    w = rng.choice([1, 2, 2, 3, 3, 4, 4, 5])
    crafted = rng.random() < 0.3
    if crafted:
        h = rng.choice([2, 3, 3, 4, 5, 5, 6, 7, 3, 8])
        w = rng.choice([3, 3, 4, 5, 5, 6, 7, 8, 2]) if h < 8 else rng.choice([2, 3])
    big = tier == "thorough" and rng.random() < 0.2
    if big:
        h, w = rng.choice([(6, 6), (7, 7), (8, 8), (5, 8), (8, 5), (4, 9)])
    vast = rng.random() < 0.004  # corridors longer than 100 cells, more than 256 blocks
    if vast:
        crafted = True
        h, w = rng.choice([(12, 12), (15, 15), (17, 17), (18, 16), (2, 130), (130, 1)])
    n = h * w
    if vast and rng.random() < 0.5:
        target = [[[y, x]] for y in range(h) for x in range(w)]  # every cell its own block
        rng.shuffle(target)
    elif crafted:
        target = crafted_partition(rng, h, w)
    else:
        target = random_partition(rng, h, w, rng.randint(1, max(1, min(n, rng.choice([2, 3, 4, 6, 9, n])))))
    sizes = [len(b) for b in target]
    nb = len(target)

    def opt(lo_ok, gen):
        return None if rng.random() < 0.35 else gen()

    sc = {
        "prop": ID,
        "h": h,
        "w": w,
        "min_num": opt(True, lambda: rng.randint(1, nb)),
        "max_num": opt(True, lambda: rng.randint(nb, n)),
        "min_size": opt(True, lambda: rng.randint(1, min(sizes))),
        "max_size": opt(True, lambda: rng.randint(max(sizes), n)),
        "allow_unmet": rng.random() < 0.3,
        "rand_seed": rng.randrange(10**9),
        "det": rng.randrange(10**6) if rng.random() < 0.3 else None,
    }
    r = rng.random()
    if crafted:
        sc["initial_blocks"] = target
        if rng.random() < 0.3:
            # tight bounds: every block exactly as large as the largest / as many blocks as cells
            q = rng.random()
            if q < 0.4 and len(set(sizes)) == 1:
                sc["min_size"] = sc["max_size"] = sizes[0]
            elif q < 0.7:
                sc["max_num"] = n
                sc["min_size"] = None
            else:
                sc["min_num"] = sc["max_num"] = nb
    elif r < 0.4:
        sc["initial_blocks"] = None
    elif r < 0.8:
        sc["initial_blocks"] = target
    else:
        sc["initial_blocks"] = random_partition(rng, h, w, rng.randint(1, n))
    steps = rng.choice([3, 8, 15, 25, 40]) if not crafted else rng.choice([2, 5, 10, 20])
    if big:
        steps = rng.choice([20, 40, 80])
    if vast:
        steps = rng.choice([1, 2, 3])
    sc["walk"] = [rng.randrange(10**6) for _ in range(steps)]
    # bias of the walk: prefer an update kind for stretches so that merge/split/move all occur
    sc["prefer"] = [rng.choice(["any", "merge", "split", "move"]) for _ in range(steps)]
    r = pyrandom.Random(rng.random())  # one draw: the rest of the scenario stream is unchanged
    if r.random() < 0.08:
        sc["interrupt"] = {"phase": r.choice(["initial", "walk", "walk"]), "step": r.randrange(max(1, min(steps, 6))), "draw": r.choice([1, 1, 2, 3, 5, 9])}
    return sc


def _is_partition_json(blocks, h, w):
    seen = set()
    for b in blocks:
        if not b:
            return False
        for y, x in b:
            if not (0 <= y < h and 0 <= x < w) or (y, x) in seen:
                return False
            seen.add((y, x))
        if not _connected([tuple(c) for c in b]):
            return False
    return len(seen) == h * w


def valid(sc):
    try:
        h, w = sc["h"], sc["w"]
        if h < 1 or w < 1 or h * w > 400:
            return False
        for k in ("min_num", "max_num", "min_size", "max_size"):
            if sc[k] is not None and sc[k] < 1:
                return False
        if sc["initial_blocks"] is not None and not _is_partition_json(sc["initial_blocks"], h, w):
            return False
        if len(sc["walk"]) != len(sc["prefer"]):
            return False
        return True
    except (KeyError, TypeError, ValueError):
        return False


# --------------------------------------------------------------------------------------
# invariant
# --------------------------------------------------------------------------------------


def _connected(cells):
    cells = list(cells)
    if not cells:
        return False
    s = set(cells)
    stack = [cells[0]]
    seen = {cells[0]}
    while stack:
        y, x = stack.pop()
        for c in ((y - 1, x), (y + 1, x), (y, x - 1), (y, x + 1)):
            if c in s and c not in seen:
                seen.add(c)
                stack.append(c)
    return len(seen) == len(s)


def canonical(blocks):
    return tuple(sorted(tuple(sorted((c[0], c[1]) for c in b)) for b in blocks))


def check_partition(blocks, h, w):
    """Returns (kind, message) or None."""
    if not isinstance(blocks, list):
        return ("C18/not-a-partition", f"value is a {type(blocks).__name__}, not a list of blocks")
    seen = {}
    for bi, b in enumerate(blocks):
        if not isinstance(b, list) or len(b) == 0:
            return ("C18/not-a-partition", f"block #{bi} is empty or not a list: {b!r}")
        for c in b:
            if not (isinstance(c, (tuple, list)) and len(c) == 2):
                return ("C18/not-a-partition", f"block #{bi} holds {c!r}, not a (y, x) pair")
            c = (c[0], c[1])
            y, x = c
            if not (0 <= y < h and 0 <= x < w):
                return ("C18/not-a-partition", f"cell {c} of block #{bi} is outside the {h}x{w} board")
            if c in seen:
                return ("C18/not-a-partition", f"cell {c} appears in block #{seen[c]} and block #{bi}")
            seen[c] = bi
    if len(seen) != h * w:
        missing = [(y, x) for y in range(h) for x in range(w) if (y, x) not in seen]
        return ("C18/not-a-partition", f"cells {missing[:5]} are in no block")
    for bi, b in enumerate(blocks):
        if not _connected([(c[0], c[1]) for c in b]):
            return ("C18/block-disconnected", f"block #{bi} {sorted(b)} is not orthogonally connected")
    return None


def bounds_violation(blocks, lim):
    mn, mx, ms, xs = lim
    if not (mn <= len(blocks) <= mx):
        return ("C18/block-count-out-of-bounds", f"{len(blocks)} blocks, allowed [{mn}, {mx}]")
    for bi, b in enumerate(blocks):
        if not (ms <= len(b) <= xs):
            return ("C18/block-size-out-of-bounds", f"block #{bi} has {len(b)} cells, allowed [{ms}, {xs}]")
    return None


def result_kind(before, after):
    """merge / split / move, read off the values (one block fewer, one more, same count)."""
    try:
        d = len(after) - len(before)
    except TypeError:
        return "other"
    return "split" if d > 0 else "merge" if d < 0 else "move"


# --------------------------------------------------------------------------------------
# execution
# --------------------------------------------------------------------------------------


class _Seam:
    """Counts every draw the code under test makes; enforces the draw budget."""

    def __init__(self, res):
        self.res = res
        self.draws = 0
        self.saved = []
        self.paused = False
        self.interrupt_at = None  # absolute draw number at which the random source fails once
        self.interrupts_fired = 0

    def _count(self):
        if self.paused:
            return  # draws made by the harness itself (interference inside fake callbacks)
        self.draws += 1
        self.res.steps += 1
        if self.draws > DRAW_BUDGET:
            raise DrawBudgetExceeded()
        if self.interrupt_at is not None and self.draws >= self.interrupt_at:
            self.interrupt_at = None
            self.interrupts_fired += 1
            raise Interrupted("injected: the random source failed")

    def install(self):
        import cspuz.generator.deterministic_random as dr

        for name in ("choice", "randint", "random", "shuffle", "randrange"):
            orig = getattr(pyrandom, name)

            def wrapper(*a, _orig=orig, **kw):
                self._count()
                return _orig(*a, **kw)

            self.saved.append((pyrandom, name, orig))
            setattr(pyrandom, name, wrapper)
        # the raw deterministic generator: whatever class the module-level generator object has
        gen_cls = type(getattr(dr, "_rng", None))
        if hasattr(gen_cls, "next") and gen_cls.__module__ == dr.__name__:
            orig_next = gen_cls.next

            def next_(xs):
                self._count()
                return orig_next(xs)

            self.saved.append((gen_cls, "next", orig_next))
            gen_cls.next = next_

    def restore(self):
        for obj, name, orig in reversed(self.saved):
            setattr(obj, name, orig)
        self.saved = []


def run(sc) -> RunResult:
    core.import_cspuz()
    from cspuz.generator import segmentation
    import cspuz.generator.srandom as srandom
    import cspuz.generator.deterministic_random as dr

    res = RunResult()
    h, w = sc["h"], sc["w"]
    res.log("start", ID, sc.get("seed"), h, w)
    init_blocks = None
    if sc["initial_blocks"] is not None:
        init_blocks = [[(c[0], c[1]) for c in b] for b in sc["initial_blocks"]]
    init_snapshot = copy.deepcopy(init_blocks)
    lim = (
        sc["min_num"] or 1,
        sc["max_num"] or h * w,
        sc["min_size"] or 1,
        sc["max_size"] or h * w,
    )
    tag = f"{h}x{w} num[{sc['min_num']},{sc['max_num']}] size[{sc['min_size']},{sc['max_size']}] allow_unmet={sc['allow_unmet']}"
    saved_state = pyrandom.getstate()
    saved_modules = (core.snapshot_module_state(srandom), core.snapshot_module_state(dr))
    seam = _Seam(res)
    try:
        pyrandom.seed(sc["rand_seed"])
        if sc["det"] is not None:
            srandom.use_deterministic_prng(True, sc["det"])
            res.hit("prng:deterministic")
        else:
            srandom.use_deterministic_prng(False)
            res.hit("prng:python_random")
        seam.install()
        try:
            builder = segmentation.SegmentationBuilder2D(
                h,
                w,
                min_num_blocks=sc["min_num"],
                max_num_blocks=sc["max_num"],
                min_block_size=sc["min_size"],
                max_block_size=sc["max_size"],
                allow_unmet_constraints_first=sc["allow_unmet"],
                initial_blocks=init_blocks,
            )
        except ValueError as e:
            # a configuration rejected at construction: no value is ever returned, the property is silent
            res.inconclusive = True
            res.hit("inconclusive:configuration_rejected_at_construction")
            res.log("construct", "rejected", str(e)[:60])
            return res
        intr = sc.get("interrupt")
        try:
            if intr and intr["phase"] == "initial":
                seam.interrupt_at = seam.draws + intr["draw"]
                fired0 = seam.interrupts_fired
                try:
                    builder.initial()
                except DrawBudgetExceeded:
                    raise
                except Exception:
                    if seam.interrupts_fired == fired0:
                        raise
                    # the caller catches the failure (whatever it was wrapped into) and asks the same builder again
                    res.hit("fault:random_source_failed_during_initial")
                    res.log("initial", "interrupted", seam.draws)
                finally:
                    seam.interrupt_at = None
            cur = builder.initial()
        except DrawBudgetExceeded:
            res.inconclusive = True
            res.hit("inconclusive:initial_draw_budget")
            res.log("initial", "draw-budget")
            return res
        except (IndexError, ValueError) as e:
            # random.choice([]) inside initial() (no candidate from an unmet configuration), or an
            # explicit "bounds cannot be met": nothing was returned, the property is silent
            res.inconclusive = True
            res.hit("inconclusive:initial_no_candidate")
            res.log("initial", "no-candidate", str(e)[:60])
            return res
        except RuntimeError as e:
            # a deliberate give-up (e.g. "no feasible partition found after N steps"): nothing was
            # returned, and the property only speaks about returned values
            res.inconclusive = True
            res.hit("inconclusive:initial_gave_up")
            res.log("initial", "gave-up", str(e)[:60])
            return res
        except Exception as e:
            res.violate("C18/unexpected-exception", f"initial() raised {type(e).__name__}: {str(e)[:120]} [{tag}]")
            return res
        res.log("initial", canonical(cur), seam.draws)
        if init_blocks != init_snapshot:
            res.violate("C18/source-value-mutated", f"initial() modified the initial_blocks it was given [{tag}]")
        v = check_partition(cur, h, w)
        if v:
            res.violate(v[0], f"initial(): {v[1]} [{tag}]")
            return res
        inside = bounds_violation(cur, lim) is None
        if not sc["allow_unmet"] and not inside:
            bv = bounds_violation(cur, lim)
            res.violate(bv[0], f"initial(): {bv[1]} [{tag}]")
            return res
        if not inside:
            res.hit("probe:walk_started_outside_bounds")
        res.states.add(f"{h}x{w}:" + hashlib.sha256(repr(canonical(cur)).encode()).hexdigest()[:14])
        kinds_applied = set()
        history = []  # earlier values of the walk (every one of them is a value the property speaks about)
        for step, (pick, prefer) in enumerate(zip(sc["walk"], sc["prefer"])):
            res.steps += 1
            snapshot = copy.deepcopy(cur)
            history.append(snapshot)
            if intr and intr["phase"] == "walk" and intr["step"] == step:
                seam.interrupt_at = seam.draws + intr["draw"]
            fired0 = seam.interrupts_fired
            try:
                try:
                    cands = builder.candidates(cur)
                except DrawBudgetExceeded:
                    raise
                except Exception:
                    if seam.interrupts_fired == fired0:
                        raise
                    raise Interrupted("the injected failure reached the caller")
            except Interrupted:
                # the failure reached the caller: it carries on with the same builder from (a copy of)
                # the value it had
                res.hit("fault:random_source_failed_during_candidates")
                res.log("step", step, "interrupted", seam.draws)
                # ... from a value it had: the one the failed call was about, or an earlier one of the walk
                back = [snapshot, snapshot] + history[-3:]
                cur = copy.deepcopy(back[pick % len(back)])
                if cur != snapshot:
                    res.hit("perturb:walk_resumed_from_an_earlier_value")
                    inside = bounds_violation(cur, lim) is None  # an earlier value may predate the walk's entry into the bounds
                continue
            except DrawBudgetExceeded:
                res.inconclusive = True
                res.hit("inconclusive:draw_budget")
                break
            except Exception as e:
                res.violate("C18/unexpected-exception", f"step {step}: candidates({canonical(cur)}) raised {type(e).__name__}: {str(e)[:120]} [{tag}]")
                return res
            finally:
                seam.interrupt_at = None
            if cur != snapshot:
                res.violate("C18/source-value-mutated", f"step {step}: candidates() modified the value it was given [{tag}]")
                return res
            if not cands:
                res.hit("probe:no_candidates")
                res.log("step", step, "no-candidates")
                break
            # breadth: up to 48 evenly spaced candidates.  What an update object looks like is the
            # builder's own business (today a pair (exclude, append)); its kind is read off the result.
            cands = list(cands)
            if len(cands) <= 48:
                breadth = list(range(len(cands)))
            else:
                stride = len(cands) / 48.0
                breadth = sorted({int(i * stride) for i in range(48)})
            results = {}
            for i in breadth:
                u = cands[i]
                try:
                    u_snapshot = copy.deepcopy(u)
                except Exception:
                    u_snapshot = None
                try:
                    out = builder.copy_with_update(cur, u)
                except Exception as e:
                    res.violate("C18/unexpected-exception", f"step {step}: copy_with_update raised {type(e).__name__}: {str(e)[:120]} [{tag}]")
                    return res
                res.steps += 1
                kind = result_kind(cur, out)
                res.hit("applied_breadth:" + kind)
                if cur != snapshot:
                    res.violate(
                        "C18/source-value-mutated",
                        f"step {step}: copy_with_update({kind}) modified the value it was applied to [{tag}]",
                    )
                    return res
                if u_snapshot is not None and u != u_snapshot:
                    res.hit("note:update_object_modified")
                v = check_partition(out, h, w)
                if v:
                    res.violate(v[0], f"step {step}: after {kind} update {_fmt_update(u)} of {canonical(cur)}: {v[1]} [{tag}]")
                    return res
                if inside:
                    bv = bounds_violation(out, lim)
                    if bv:
                        res.violate(bv[0], f"step {step}: after {kind} update {_fmt_update(u)} of {canonical(cur)}: {bv[1]} [{tag}]")
                        return res
                results[i] = (kind, out)
            pool = [i for i in breadth if results[i][0] == prefer] or breadth
            chosen = pool[pick % len(pool)]
            kind, nxt = results[chosen]
            kinds_applied.add(kind)
            res.hit("applied_depth:" + kind)
            cur = nxt
            if not inside and bounds_violation(cur, lim) is None:
                inside = True
                res.hit("probe:walk_entered_bounds")
            res.states.add(f"{h}x{w}:" + hashlib.sha256(repr(canonical(cur)).encode()).hexdigest()[:14])
            res.log("step", step, kind, len(cands), canonical(cur), seam.draws)
        if {"merge", "split", "move"} <= kinds_applied:
            res.nontrivial = True
        res.hit("draws", seam.draws)
    finally:
        seam.restore()
        pyrandom.setstate(saved_state)
        core.restore_module_state(srandom, saved_modules[0])
        core.restore_module_state(dr, saved_modules[1])
    return res


def _fmt_update(u):
    try:
        ex, ap = u
        return f"(exclude {list(ex)}, append {[sorted(b) for b in ap]})"
    except Exception:
        return repr(u)[:200]


def shrink_candidates(sc):
    # shorter walks first
    walk, prefer = sc["walk"], sc["prefer"]
    for k in range(len(walk)):
        yield dict(sc, walk=walk[:k], prefer=prefer[:k])
    for i in range(len(walk)):
        yield dict(sc, walk=walk[:i] + walk[i + 1 :], prefer=prefer[:i] + prefer[i + 1 :])
    # simpler configuration
    for key in ("min_num", "max_num", "min_size", "max_size"):
        if sc[key] is not None:
            yield dict(sc, **{key: None})
    if sc["allow_unmet"]:
        yield dict(sc, allow_unmet=False)
    if sc["det"] is not None:
        yield dict(sc, det=None)
    if sc["initial_blocks"] is not None:
        yield dict(sc, initial_blocks=None)
        one = [[[y, x] for y in range(sc["h"]) for x in range(sc["w"])]]
        if sc["initial_blocks"] != one:
            yield dict(sc, initial_blocks=one)
    # smaller boards (only without explicit initial blocks)
    if sc["initial_blocks"] is None:
        if sc["h"] > 1:
            yield dict(sc, h=sc["h"] - 1)
        if sc["w"] > 1:
            yield dict(sc, w=sc["w"] - 1)
    for i, p in enumerate(prefer):
        if p != "any":
            yield dict(sc, prefer=prefer[:i] + ["any"] + prefer[i + 1 :])
    for i, x in enumerate(walk):
        if x != 0:
            yield dict(sc, walk=walk[:i] + [0] + walk[i + 1 :])
    if sc["rand_seed"] != 0:
        yield dict(sc, rand_seed=0)
        yield dict(sc, rand_seed=sc["rand_seed"] // 2)
