"""Shared machinery of the deterministic simulator.

One integer decides everything: run i of property P under master seed S uses
``random.Random(run_seed(S, P, i))`` to *generate* a JSON scenario; ``run(scenario)`` is a
pure function of that scenario and the code in the repository under test, so the scenario
itself is the replay artefact.

Nothing in this file reads a wall clock for anything but reporting (wall_s, runs/hour) and
wall-time safety limits; nothing draws from a PRNG while logging.
"""

from __future__ import annotations

import collections
import concurrent.futures
import copy
import faulthandler
import hashlib
import importlib
import json
import multiprocessing
import os
import re
import subprocess
import sys
import time
import traceback

VERIF_DIR = os.path.dirname(os.path.dirname(os.path.abspath(__file__)))
REPO = os.path.realpath(os.environ.get("VERIF_REPO", "/repo"))
GUARD_ENV = "CSPUZ_VERIF_SIM"  # recorded in MANIFEST.hooks; the source does not read it.


EARLY_STOP_VIOLATING_RUNS = int(os.environ.get("VERIF_EARLY_STOP", "400"))
RUN_WALL_LIMIT = float(os.environ.get("VERIF_RUN_WALL_LIMIT", "40"))


class RunTimeout(BaseException):
    """A single simulated run exceeded its wall-time safety limit."""


class HarnessError(Exception):
    """Raised when the harness itself (not the system under test) is at fault."""


# --------------------------------------------------------------------------------------
# importing the system under test from the working tree
# --------------------------------------------------------------------------------------


def ensure_repo_on_path() -> None:
    if sys.path[0] != REPO:
        if REPO in sys.path:
            sys.path.remove(REPO)
        sys.path.insert(0, REPO)


def fresh_z3_context():
    """Give z3 a brand-new main context.

    cspuz talks to z3 through z3py's process-global main context.  Which model z3 returns depends
    on everything that context has seen before (symbol numbering, learnt state), i.e. on which runs
    happened to share a worker process.  A run must be a function of its scenario only, so every
    run starts from a fresh context.  (Harness side only; nothing in /repo is touched.)"""
    try:
        import z3
        import z3.z3 as zz
    except ImportError:
        return
    zz._main_ctx = None
    z3.set_param("smt.random_seed", 0)
    z3.set_param("sat.random_seed", 0)
    # whatever cspuz's z3 backend module keeps at module level (today only the lazily imported z3
    # handle; a refactor may keep a shared z3.Solver or cached constants there) belongs to the old
    # context: re-execute that module so that the run starts like a fresh process on that side too
    m = sys.modules.get("cspuz.backend.z3")
    if m is not None:
        try:
            importlib.reload(m)
        except Exception:
            pass


def import_cspuz():
    ensure_repo_on_path()
    import cspuz  # noqa

    where = os.path.realpath(cspuz.__file__)
    if not where.startswith(REPO + os.sep):
        raise HarnessError(f"cspuz imported from {where}, expected under {REPO}")
    return cspuz


# --------------------------------------------------------------------------------------
# seeds, digests
# --------------------------------------------------------------------------------------


def run_seed(master: int, prop: str, index: int) -> int:
    h = hashlib.sha256(f"{master}:{prop}:{index}".encode()).digest()
    return int.from_bytes(h[:8], "big")


def sub_seed(seed: int, *labels) -> int:
    h = hashlib.sha256((str(seed) + ":" + ":".join(map(str, labels))).encode()).digest()
    return int.from_bytes(h[:8], "big")


def canon(obj) -> str:
    return json.dumps(obj, sort_keys=True, separators=(",", ":"), default=_json_default)


def _json_default(o):
    if isinstance(o, (set, frozenset)):
        return sorted(o)
    if isinstance(o, tuple):
        return list(o)
    return repr(o)


def digest(obj) -> str:
    return hashlib.sha256(canon(obj).encode()).hexdigest()


# --------------------------------------------------------------------------------------
# run results
# --------------------------------------------------------------------------------------


class RunResult:
    """What one simulated run produced."""

    __slots__ = ("violations", "events", "counters", "steps", "nontrivial", "states", "inconclusive")

    def __init__(self):
        self.violations = []  # list of {"kind":..., "message":...}
        self.events = []  # passive event log (JSON values)
        self.counters = collections.Counter()  # fault kinds that fired, probes, ...
        self.steps = 0  # simulator steps (ops executed + peer calls answered + draws served)
        self.nontrivial = False
        self.states = set()  # reference-state digests reached (property specific measure)
        self.inconclusive = False

    def log(self, *event):
        self.events.append(list(event))

    def violate(self, kind: str, message: str):
        self.violations.append({"kind": kind, "message": message})
        self.events.append(["VIOLATION", kind, message])

    def hit(self, name: str, n: int = 1):
        self.counters[name] += n

    def digest(self) -> str:
        return digest(self.events)


# --------------------------------------------------------------------------------------
# known findings
# --------------------------------------------------------------------------------------

KNOWN_FINDINGS_FILE = os.environ.get("VERIF_KNOWN_FINDINGS", os.path.join(VERIF_DIR, "KNOWN_FINDINGS.txt"))
_KNOWN_RE = re.compile(r"^known:\s+property=(\S+)\s+kind=(\S+)\s+match=/(.*?)/\s+(.*)$")


def load_known_findings(prop: str):
    out = []
    if not os.path.exists(KNOWN_FINDINGS_FILE):
        return out
    with open(KNOWN_FINDINGS_FILE) as f:
        for line in f:
            line = line.rstrip("\n")
            m = _KNOWN_RE.match(line)
            if m and m.group(1) == prop:
                out.append({"kind": m.group(2), "match": re.compile(m.group(3)), "text": m.group(4)})
    return out


def match_known(known, violation):
    for k in known:
        if k["kind"] == violation["kind"] and k["match"].search(violation["message"]):
            return k
    return None


# --------------------------------------------------------------------------------------
# minimisation
# --------------------------------------------------------------------------------------


def kinds_of(result: RunResult):
    return [v["kind"] for v in result.violations]


def minimise(prop, scenario, kind, max_runs=400, max_seconds=60.0):
    """Greedy reduction: keep an edit iff the same violation kind is still reported."""
    t0 = time.time()
    runs = 0
    best = scenario
    improved = True
    while improved:
        improved = False
        for cand in prop.shrink_candidates(best):
            if runs >= max_runs or time.time() - t0 > max_seconds:
                return best, runs
            if canon(cand) == canon(best):
                continue
            try:
                if not prop.valid(cand):
                    continue
                runs += 1
                res = prop.run(cand)
            except Exception:
                continue
            if kind in kinds_of(res):
                best = cand
                improved = True
                break
    return best, runs


def ddmin_list(lst):
    """Yield copies of lst with chunks removed (large chunks first), then single items."""
    n = len(lst)
    if n == 0:
        return
    size = n // 2
    while size >= 1:
        for start in range(0, n, size):
            yield lst[:start] + lst[start + size :]
        if size == 1:
            break
        size //= 2


def shrink_int(x, toward=0):
    if x == toward:
        return
    yield toward
    if abs(x - toward) > 1:
        yield toward + (x - toward) // 2
    yield x - 1 if x > toward else x + 1


# --------------------------------------------------------------------------------------
# parallel execution of a batch of runs
# --------------------------------------------------------------------------------------


def _worker_chunk(args):
    prop_name, master, tier, indices, wall_limit = args
    faulthandler.enable()
    faulthandler.dump_traceback_later(wall_limit, exit=True)
    try:
        from sim import registry

        prop = registry.get(prop_name)
        out = {
            "runs": 0,
            "steps": 0,
            "counters": collections.Counter(),
            "digests": set(),
            "nontrivial_digests": set(),
            "states": set(),
            "violations": [],
            "samples": [],
            "inconclusive": 0,
            "harness_errors": [],
        }
        import random
        import signal

        def _on_alarm(signum, frame):
            raise RunTimeout()

        signal.signal(signal.SIGALRM, _on_alarm)
        n_timeouts = 0
        for i in indices:
            seed = run_seed(master, prop_name, i)
            try:
                signal.setitimer(signal.ITIMER_REAL, RUN_WALL_LIMIT)
                try:
                    scenario = prop.generate(random.Random(seed), tier, i)
                    scenario["seed"] = seed
                    scenario["index"] = i
                    res = prop.run(scenario)
                finally:
                    signal.setitimer(signal.ITIMER_REAL, 0)
            except RunTimeout:
                out["harness_errors"].append(
                    {"index": i, "seed": seed, "trace": f"run exceeded {RUN_WALL_LIMIT}s of wall time (hang); never counted as a pass"}
                )
                n_timeouts += 1
                if n_timeouts >= 2:
                    break  # the code under test hangs repeatedly: do not burn the whole budget
                continue
            except Exception:
                out["harness_errors"].append({"index": i, "seed": seed, "trace": traceback.format_exc()})
                continue
            out["runs"] += 1
            out["steps"] += res.steps
            out["counters"].update(res.counters)
            d = res.digest()[:16]
            out["digests"].add(d)
            if res.nontrivial:
                out["nontrivial_digests"].add(d)
            if res.inconclusive:
                out["inconclusive"] += 1
            out["states"].update(res.states)
            if len(out["samples"]) < 1 and res.nontrivial:
                out["samples"].append(scenario)
            if res.violations:
                out["violations"].append(
                    {"index": i, "seed": seed, "scenario": scenario, "violations": res.violations}
                )
        return out
    finally:
        faulthandler.cancel_dump_traceback_later()


def run_batch(prop_name, master, tier, n_runs, workers=None, chunk=None, wall_limit=3000):
    workers = workers or int(os.environ.get("VERIF_WORKERS", "0")) or min(16, os.cpu_count() or 1)
    if chunk is None:
        chunk = max(1, min(200, n_runs // (workers * 4) or 1))
    chunks = [list(range(s, min(n_runs, s + chunk))) for s in range(0, n_runs, chunk)]
    agg = {
        "runs": 0,
        "steps": 0,
        "counters": collections.Counter(),
        "digests": set(),
        "nontrivial_digests": set(),
        "states": set(),
        "violations": [],
        "samples": [],
        "inconclusive": 0,
        "harness_errors": [],
    }
    if workers == 1:
        results = [_worker_chunk((prop_name, master, tier, c, wall_limit)) for c in chunks]
    else:
        ctx = multiprocessing.get_context("fork")
        results = []
        with concurrent.futures.ProcessPoolExecutor(max_workers=workers, mp_context=ctx) as ex:
            futs = [ex.submit(_worker_chunk, (prop_name, master, tier, c, wall_limit)) for c in chunks]
            n_bad = 0
            known = load_known_findings(prop_name)
            for f in futs:  # merged in seed order, independent of worker scheduling
                if n_bad >= EARLY_STOP_VIOLATING_RUNS:
                    f.cancel()
                    continue
                try:
                    results.append(f.result(timeout=wall_limit + 60))
                except concurrent.futures.CancelledError:
                    continue
                except Exception as e:  # BrokenProcessPool, timeout
                    raise HarnessError(f"worker failed: {e!r}")
                # only violations that no known-finding line covers count towards the early stop
                n_bad += len(results[-1]["harness_errors"]) + sum(
                    1 for rec in results[-1]["violations"] if any(match_known(known, v) is None for v in rec["violations"])
                )
            if n_bad >= EARLY_STOP_VIOLATING_RUNS:
                # the property is clearly broken: do not burn the rest of the budget (a prefix of the
                # seed order was explored; which prefix is reported through the run count)
                for f in futs:
                    f.cancel()
    for r in results:
        agg["runs"] += r["runs"]
        agg["steps"] += r["steps"]
        agg["counters"].update(r["counters"])
        agg["digests"] |= r["digests"]
        agg["nontrivial_digests"] |= r["nontrivial_digests"]
        agg["states"] |= r["states"]
        agg["violations"].extend(r["violations"])
        agg["inconclusive"] += r["inconclusive"]
        agg["harness_errors"].extend(r["harness_errors"])
        for s in r["samples"]:
            if len(agg["samples"]) < 3:
                agg["samples"].append(s)
    return agg


# --------------------------------------------------------------------------------------
# replay files
# --------------------------------------------------------------------------------------


def write_replay(prop_name, kind, message, seed, scenario, original_digest, event_log, out_dir=None):
    out_dir = out_dir or os.path.join(VERIF_DIR, "replays")
    os.makedirs(out_dir, exist_ok=True)
    body = {
        "property": prop_name,
        "kind": kind,
        "message": message,
        "seed": seed,
        "scenario": scenario,
        "scenario_original_digest": original_digest,
        "event_log": event_log,
    }
    name = f"{prop_name}-{kind.split('/')[-1]}-{digest(scenario)[:10]}.json"
    path = os.path.join(out_dir, name)
    with open(path, "w") as f:
        json.dump(body, f, indent=1, sort_keys=True, default=_json_default)
    return path


def replay_in_fresh_process(path, hashseed="77"):
    """Re-execute a replay file in a fresh interpreter; returns (exit code, stdout)."""
    env = dict(os.environ)
    env["PYTHONHASHSEED"] = hashseed
    env["VERIF_REPO"] = REPO
    p = subprocess.run(
        [sys.executable, os.path.join(VERIF_DIR, "sim", "cli.py"), "replay", path],
        env=env,
        stdout=subprocess.PIPE,
        stderr=subprocess.STDOUT,
        timeout=600,
    )
    return p.returncode, p.stdout.decode("utf-8", "replace")


# --------------------------------------------------------------------------------------
# the check driver
# --------------------------------------------------------------------------------------


def check(prop_name: str, tier: str, master: int, n_runs=None, out_evidence=True) -> int:
    from sim import registry

    prop = registry.get(prop_name)
    t0 = time.time()
    n = n_runs or int(os.environ.get("VERIF_RUNS", "0")) or prop.TIERS[tier]
    print(f"seed={master} property={prop_name} tier={tier} runs={n} repo={REPO}", flush=True)

    extra = {}
    if hasattr(prop, "pre_check"):
        # deterministic, exhaustive sub-checks that do not depend on the seed (e.g. the
        # enumerated reduced PRNG domain of C19a); they return violations like a run does.
        extra = prop.pre_check(tier, master) or {}

    agg = run_batch(prop_name, master, tier, n)
    harness_failed = bool(agg["harness_errors"])
    if harness_failed:
        he = agg["harness_errors"][0]
        print(f"HARNESS-ERROR property={prop_name} index={he['index']} seed={he['seed']} ({len(agg['harness_errors'])} runs affected)")
        print(he["trace"])
        if not agg["violations"] and not extra.get("violations"):
            return 2
        # violations found as well: report them (exit 1); a harness error never yields exit 0

    known = load_known_findings(prop_name)
    by_kind = collections.OrderedDict()
    known_hits = collections.OrderedDict()
    all_v = list(extra.get("violations", [])) + agg["violations"]
    n_violating_runs = len(all_v)
    for rec in all_v:
        for v in rec["violations"]:
            k = match_known(known, v)
            if k is not None:
                known_hits.setdefault(k["text"], 0)
                known_hits[k["text"]] += 1
                continue
            by_kind.setdefault(v["kind"], []).append((rec, v))

    replays = []
    for kind, items in by_kind.items():
        rec, v = items[0]
        scenario = rec["scenario"]
        small, shrink_runs = minimise(prop, scenario, kind)
        res = prop.run(small)
        msg = next((x["message"] for x in res.violations if x["kind"] == kind), v["message"])
        path = write_replay(prop_name, kind, msg, rec["seed"], small, digest(scenario), res.events)
        code, out = replay_in_fresh_process(path)
        confirmed = code == 1 and f"VIOLATION property={prop_name}" in out
        replays.append(
            {
                "kind": kind,
                "count": len(items),
                "first_index": rec["index"],
                "seed": rec["seed"],
                "replay": path,
                "shrink_runs": shrink_runs,
                "fresh_process_replay_reproduced": confirmed,
                "message": msg,
            }
        )
        print(f"VIOLATION property={prop_name} replay={path}")
        print(f"  kind={kind} runs_with_this_kind={len(items)} first_index={rec['index']} seed={rec['seed']}")
        print(f"  {msg}")
        print(f"  fresh-process replay reproduced: {confirmed}")
    for text, cnt in known_hits.items():
        print(f"KNOWN-FINDING: property={prop_name} {text} (hit in {cnt} runs)")

    wall = time.time() - t0
    if out_evidence and not os.environ.get("VERIF_NO_EVIDENCE"):
        cov = {
            "evaluations": agg["runs"] + int(extra.get("evaluations", 0)),
            "distinct_nontrivial": len(agg["nontrivial_digests"]),
            "rule": prop.RULE,
            "samples": agg["samples"][:3] or [{"note": "no non-trivial run in this batch"}],
            "exhaustive": False,
            "runs": agg["runs"],
            "runs_per_hour": int(agg["runs"] / wall * 3600) if wall > 0 else 0,
            "seeds": f"run i uses sha256('{master}:{prop_name}:i')[:8], i in [0,{n})",
            "simulator_steps": agg["steps"],
            "simulated_time": "not applicable: the code under test has no clock or timer; progress is counted in simulator steps",
            "distinct_run_digests": len(agg["digests"]),
            "distinct_reference_states": len(agg["states"]),
            "state_measure": getattr(prop, "STATE_MEASURE", ""),
            "run_outcomes": {"inconclusive": agg["inconclusive"], "with_violations": n_violating_runs},
            "faults_and_probes_fired": dict(sorted(agg["counters"].items())),
            "components": prop.COMPONENTS,
            "violation_reports": replays,
            "known_findings_hit": dict(known_hits),
            "pre_check": extra.get("coverage", {}),
        }
        ev = {
            "property_id": prop_name,
            "tier": tier,
            "seed": master,
            "level": "exploration",
            "coverage": cov,
            "assumptions": prop.ASSUMPTIONS,
            "wall_s": round(wall, 3),
            "violations": len(by_kind),
        }
        os.makedirs(os.path.join(VERIF_DIR, "evidence"), exist_ok=True)
        with open(os.path.join(VERIF_DIR, "evidence", f"{prop_name}.json"), "w") as f:
            json.dump(ev, f, indent=1, sort_keys=True, default=_json_default)
    print(
        f"done property={prop_name} runs={agg['runs']} nontrivial_distinct={len(agg['nontrivial_digests'])} "
        f"violating_runs={n_violating_runs} unlisted_kinds={len(by_kind)} wall={wall:.1f}s",
        flush=True,
    )
    if by_kind:
        return 1
    return 2 if harness_failed else 0


def snapshot_module_state(mod):
    """Deep copy of every module-level data attribute (not functions, classes, modules): lets the
    harness put a module's global state back without knowing the names of its globals."""
    import types

    out = {}
    for k, v in vars(mod).items():
        if k.startswith("__") or isinstance(v, (types.FunctionType, types.ModuleType, type, types.BuiltinFunctionType)):
            continue
        if getattr(v, "__module__", None) == "typing":
            continue
        try:
            out[k] = copy.deepcopy(v)
        except Exception:
            out[k] = v
    return out


def restore_module_state(mod, snap):
    for k, v in snap.items():
        setattr(mod, k, v)


def deep(x):
    return copy.deepcopy(x)
