"""C02 - solve() reports exactly the facts common to all solutions.

``Solver.solve`` is a retry loop against a party whose every answer is a free choice among
the models.  The simulator owns that choice (route A: adversarial SimBackend; route C:
Sugar-protocol peer), or lets real z3 make it (route B), or lets a native-deduction stub
answer (routes C/D).  Oracle: exact common facts from exhaustive model enumeration, plus a
bound on the number of backend calls per solve().
"""

from __future__ import annotations

import hashlib
import random
import warnings

from sim import core, peers, refsem
from sim.core import RunResult
from sim.c01_session import decls_after, drop_var, _nest, key_arg

ID = "C02"
TIERS = {"quick": 40000, "thorough": 500000}
RULE = (
    "each run = one seeded program (<=6 variables, 15% with 7-11, 25% padded to 11-13 with singleton domains; domain "
    "product <=1024; <=5 constraints of <=18 nodes plus puzzle-shaped templates), an answer-key subset (none/some/all, "
    "added in one or several rounds and in several argument forms), a route (A adversarial SimBackend refute loop with "
    "model-choice policy lexmin/lexmax/uniform/sticky/contrarian/rotate and write-order / sol-on-unsat quirks; B real z3; C "
    "Sugar-protocol peer through the five backend names; D native in-process deduction) and 1-3 solve() calls (up to 5 in "
    "the thorough ramp) with ensure / add_answer_key / find_answer / sol scribbles in between; non-trivial = some solve() "
    "with >=1 answer key whose reference model set is neither empty nor the whole domain; distinct = distinct event-log "
    "SHA-256"    "; 4% of the runs are programs of 12-30 variables solved through real z3 and judged by a sound but incomplete oracle built "
    "from known models (hidden witness and those of its neighbours that satisfy every constraint): True must be returned, a key on "
    "which two known models disagree must be None, a reported value must be the witness's value"
    "; fault injection in one scenario out of ten: the backend dies at the n-th call of one solve() (n<=4, torn result write), z3 check() answers unknown or raises, the external solver dies without a reply, add_answer_key calls are rejected half-way (duplicate key after variables that are not keys yet: those become 'maybe keys'); the same Solver is queried again and checked"
)
STATE_MEASURE = "distinct (declarations, key set, model set) triples at solve() time"
COMPONENTS = {
    "real": ["cspuz.solver.Solver.solve / add_answer_key / find_answer", "cspuz.expr", "cspuz.constraints", "cspuz.backend.z3 + z3 (route B)", "cspuz.backend.sugar_like + _subproc.run_subprocess (route C)"],
    "stub": ["SimBackend with model-choice policy (routes A, D)", "Sugar-protocol peer behind subprocess / extension-module seams (route C)"],
}
ASSUMPTIONS = [
    "the stub backends are correct solvers (they enumerate all models of everything they are given); only their legal freedom (which model, write order, sol on UNSAT) is adversarial",
    "route C: the stub's reading of the Sugar wire protocol equals the real solvers' (they cannot be installed offline)",
    "progress bound per solve(): 8 + 3 x (sum of |domain(k)| over answer keys) backend calls",
]

SUGAR_NAMES = ["sugar", "sugar_extended", "csugar", "enigma_csp", "cspuz_core"]


def generate_long(rng, tier):
    """Many independent answer keys (40-150), some of them forced: against a backend that changes
    ONE free key per call the refute loop needs as many iterations as there are free keys."""
    n = rng.choice([40, 64, 65, 100, 129, 150])
    decls = [{"t": "b"} if rng.random() < 0.8 else {"t": "i", "lo": 0, "hi": rng.randint(1, 3)} for _ in range(n)]
    forced = {}
    p_forced = rng.choice([0.2, 0.2, 0.6, 0.9])  # with many forced keys, windows / batches of keys can be all-determined
    for i, d in enumerate(decls):
        if rng.random() < p_forced:
            forced[str(i)] = (rng.random() < 0.5) if d["t"] == "b" else rng.randint(d["lo"], d["hi"])
    keys = [i for i in range(n) if rng.random() < 0.9]
    return {"prop": ID, "route": "A", "long": True, "decls": decls, "forced": forced, "keys": keys, "start_high": rng.random() < 0.5}


def generate_big(rng, tier):
    """Programs too large to enumerate (12-30 variables), solved through real z3.  Known models =
    the hidden witness plus those of its neighbours / random assignments that satisfy every
    constraint.  Sound, incomplete oracle: solve() must return True; a key on which two known models
    disagree must be None; a reported value must be the witness's value (with its type)."""
    from sim import c01_session

    big = c01_session.generate_big(rng, tier)
    decls, cs = big["decls"], big["cs"]
    pred = refsem.compile_pred(cs)
    known = [list(p) for p in big["pins"] if pred(tuple(p))]
    w = big["pins"][0]
    for _ in range(60):
        p = list(w)
        for _ in range(rng.randint(1, 3)):
            i = rng.randrange(len(decls))
            p[i] = (not p[i]) if decls[i]["t"] == "b" else rng.randint(decls[i]["lo"], decls[i]["hi"])
        if pred(tuple(p)) and p not in known:
            known.append(p)
    ids = [i for i in range(len(decls)) if rng.random() < rng.choice([0.4, 1.0])]
    return {"prop": ID, "route": "B", "big": True, "decls": decls, "cs": cs, "known": known[:40], "keys": ids, "nest": rng.randint(0, 7), "form": rng.randint(0, 3)}


def generate(rng, tier, index):
    if rng.random() < 0.04:
        return generate_big(rng, tier)
    if rng.random() < 0.002:
        return generate_long(rng, tier)
    route = rng.choices(["A", "B", "C", "D"], weights=[5, 3, 3, 1])[0]
    sc = {"prop": ID, "route": route}
    if route in ("A", "D"):
        name = rng.choice(peers.POLICIES)
        sc["policy"] = {"name": name, "seed": rng.randrange(1000), "stride": rng.choice([1, 2, 3, 7])}
        sc["quirks"] = {"clear_on_unsat": rng.random() < 0.5, "write_order": rng.choice(["fwd", "rev"])}
    if route == "C":
        sc["backend"] = rng.choice(SUGAR_NAMES)
        name = rng.choice(peers.POLICIES)
        sc["policy"] = {"name": name, "seed": rng.randrange(1000), "stride": rng.choice([1, 2, 3, 7])}
        sc["fmt"] = {"order": rng.choice(["java", "byid", "shuffled"]), "seed": rng.randrange(1000), "final_newline": rng.random() < 0.7}
    scale = route in ("C", "D") and rng.random() < 0.02
    decls = refsem.gen_decls(
        rng,
        max_vars=rng.randint(1, 6) if rng.random() < 0.85 else rng.randint(7, 11),
        cap=1024 if not scale else 32,
        allow_wide=rng.random() < 0.1,
        # scale: hundreds of (mostly singleton-domain) answer keys through the native deduction route
        pad_to=rng.choice([0, 0, 0, 0, 0, 0, 0, 11, 13]) if not scale else rng.choice([257, 300, 520, 1030]),
    )
    if refsem.domain_product(decls) > 1024:
        decls = [d if d["t"] == "b" or d["hi"] - d["lo"] < 6 else {"t": "i", "lo": d["lo"], "hi": d["lo"] + 5} for d in decls]
        while refsem.domain_product(decls) > 1024:
            decls.pop()
    ops = []
    for d in decls:
        ops.append({"s": 0, "op": "bool_var"} if d["t"] == "b" else {"s": 0, "op": "int_var", "lo": d["lo"], "hi": d["hi"]})
    keys = set()
    witness = refsem.gen_witness(rng, decls) if rng.random() < 0.75 else []
    big = tier == "thorough" and rng.random() < 0.3
    budget_hi = rng.choice([3, 6, 10, 18]) if not big else rng.choice([10, 18, 30])
    n_rounds = rng.choice([1, 1, 1, 2, 3]) if not big else rng.choice([2, 3, 4, 5])
    key_mode = rng.choice(["none", "some", "some", "all", "all"]) if not scale else "all"
    if scale and route == "C" and sc["backend"] == "sugar":
        sc["backend"] = rng.choice(["sugar_extended", "csugar", "enigma_csp", "cspuz_core"])  # one call per solve, not one per key
    for rnd in range(n_rounds):
        g = refsem.Gen(rng, decls, graph_nodes=(route == "C" and sc["backend"] != "sugar" and rng.random() < 0.3))
        for _ in range(rng.choice([0, 1, 1, 2, 3]) if rnd == 0 else rng.choice([0, 1])):
            n = rng.choice([1, 1, 2])
            cs = [refsem.gen_constraint(rng, g, rng.randint(1, budget_hi), witness if len(witness) == len(decls) else None) for _ in range(n)]
            ops.append({"s": 0, "op": "ensure", "cs": cs, "nest": rng.randint(0, 7)})
        if rnd > 0 and rng.random() < 0.3 and refsem.domain_product(decls) * 2 <= 1024:
            ops.append({"s": 0, "op": "bool_var"})
            decls = decls + [{"t": "b"}]
            if witness:
                witness = witness + [rng.random() < 0.5]
        if key_mode == "all":
            ids = [i for i in range(len(decls)) if i not in keys]
        elif key_mode == "some":
            ids = [i for i in range(len(decls)) if i not in keys and rng.random() < 0.5]
        else:
            ids = []
        if ids or rng.random() < 0.2:
            rng.shuffle(ids)
            keys.update(ids)
            ops.append({"s": 0, "op": "add_key", "ids": ids, "form": rng.randint(0, 5)})
        if rng.random() < 0.25:
            ops.append({"s": 0, "op": "find_answer"})
        if rng.random() < 0.2:
            i = rng.randrange(len(decls))
            ops.append({"s": 0, "op": "scribble", "id": i, "val": rng.choice([None, True, 0, 5])})
        ops.append({"s": 0, "op": "solve"})
    sc["ops"] = add_fault(rng, ops) if not scale else ops
    if not scale:
        sc["ops"] = add_rejected(rng, sc["ops"])
    return sc


def add_rejected(rng, ops, p=0.1):
    """In one scenario out of ten the program makes an API call that the Solver rejects (ValueError /
    TypeError), catches the exception and carries on with the same Solver: a duplicate answer key
    (alone, or after variables that are not keys yet - whether those get registered by the
    rejected call is left open, they are 'maybe keys' from then on), a non-variable answer key, a
    non-boolean constraint, an integer array with lo > hi."""
    r = random.Random(rng.random())  # one draw: the rest of the scenario stream is unchanged
    if r.random() >= p:
        return ops
    n_vars = sum(1 for o in ops if o["op"] in ("bool_var", "int_var"))
    ever_keys = {i for o in ops if o["op"] == "add_key" for i in o["ids"]}
    at = [j for j, o in enumerate(ops) if o["op"] in ("find_answer", "solve")]
    if not at:
        return ops
    j = r.choice(at)  # right before a query
    decl = 0
    keys = set()
    for o in ops[:j]:
        if o["op"] in ("bool_var", "int_var"):
            decl += 1
        elif o["op"] == "add_key":
            keys.update(o["ids"])
    what = r.choice(["key_dup", "key_dup", "key_dup", "key_bad", "ensure_int", "int_array"])
    if what == "key_dup":
        free = [i for i in range(decl) if i not in ever_keys]
        new = r.sample(free, min(len(free), r.choice([0, 1, 1, 2])))
        if keys:
            dup = r.choice(sorted(keys))
        elif new:
            dup = new[0]  # the same variable twice in one call
        else:
            return ops
        rej = {"s": 0, "op": "rejected", "what": "key_dup", "new": new, "dup": dup, "pos": r.choice(["last", "last", "first", "middle"])}
    elif what == "int_array":
        lo = r.randint(-3, 3)
        rej = {"s": 0, "op": "rejected", "what": "int_array", "lo": lo, "hi": lo - r.randint(1, 3)}
    else:
        rej = {"s": 0, "op": "rejected", "what": what}
    return ops[:j] + [rej] + ops[j:]


def add_fault(rng, ops, p=0.1):
    """Fault injection: in one scenario out of ten the solver behind the seam fails once, at the n-th
    call of one query (inside the refute loop when n > 1), and the same Solver is queried again."""
    r = random.Random(rng.random())  # one draw: the rest of the scenario stream is unchanged
    if r.random() >= p:
        return ops
    at = [j for j, o in enumerate(ops) if o["op"] in ("find_answer", "solve")]
    if not at:
        return ops
    j = r.choice(at)
    arm = {"s": 0, "op": "arm_fault", "n": r.choice([1, 1, 2, 2, 3, 4]), "torn": r.randint(0, 4), "kind": r.choice(["unknown", "exception"])}
    ops = ops[:j] + [arm] + ops[j:]
    if j == at[-1]:
        ops.append({"s": 0, "op": "solve"})
    return ops


def valid(sc):
    try:
        if sc.get("long"):
            n = len(sc["decls"])
            return n >= 1 and all(0 <= int(k) < n for k in sc["forced"]) and all(0 <= i < n for i in sc["keys"]) and len(set(sc["keys"])) == len(sc["keys"])
        if sc.get("big"):
            decls = sc["decls"]
            return (
                bool(sc["known"])
                and all(len(k) == len(decls) for k in sc["known"])
                and all(0 <= i < len(decls) for i in sc["keys"])
                and len(set(sc["keys"])) == len(sc["keys"])
                and all(refsem.valid(c, decls, "B") for c in sc["cs"])
                and all(refsem.compile_pred(sc["cs"])(tuple(k)) for k in sc["known"])
            )
        if sc["route"] not in ("A", "B", "C", "D"):
            return False
        if sc["route"] == "C" and sc["backend"] not in SUGAR_NAMES:
            return False
        decls = []
        keys = set()
        for op in sc["ops"]:
            k = op["op"]
            if op["s"] != 0:
                return False
            if k == "bool_var":
                decls.append({"t": "b"})
            elif k == "int_var":
                if op["lo"] > op["hi"]:
                    return False
                decls.append({"t": "i", "lo": op["lo"], "hi": op["hi"]})
            elif k == "ensure":
                for c in op["cs"]:
                    if not refsem.valid(c, decls, "B"):
                        return False
                    if sc["route"] != "C" or sc.get("backend") == "sugar":
                        if refsem.tags(c) & {"gavc", "gdiv"}:
                            return False
            elif k == "add_key":
                for i in op["ids"]:
                    if not 0 <= i < len(decls) or i in keys:
                        return False
                    keys.add(i)
            elif k == "arm_fault":
                if op["n"] < 1 or op.get("torn", 0) < 0:
                    return False
            elif k == "rejected":
                w = op["what"]
                if w == "key_dup":
                    new = op["new"]
                    if len(set(new)) != len(new) or any(not 0 <= i < len(decls) or i in keys for i in new):
                        return False
                    if not (op["dup"] in keys or op["dup"] in new):
                        return False
                    keys.update(new)  # maybe keys: never registered again later
                elif w == "int_array":
                    if op["lo"] <= op["hi"]:
                        return False
                elif w not in ("key_bad", "ensure_int"):
                    return False
            elif k == "scribble":
                if not 0 <= op["id"] < len(decls):
                    return False
            elif k not in ("solve", "find_answer"):
                return False
            if refsem.domain_product(decls) > 4096:
                return False
        return True
    except (KeyError, TypeError, IndexError):
        return False


def expected_facts(decls, M, keys):
    out = {}
    for k in sorted(keys):
        v0 = M[0][k]
        out[k] = v0 if all(m[k] == v0 for m in M) else None
    return out


def check_solve(res, prop, tag, decls, constraints, keys, r, sols, n_op, models_cache=None):
    """The C02 oracle; also used by C03's end-to-end configuration (prop='C03', kinds e2e-...)."""
    M = models_cache if models_cache is not None else refsem.models(decls, constraints)
    total = refsem.domain_product(decls)
    pre = f"{prop}/" + ("e2e-" if prop != "C02" else "")
    if r is not True and r is not False:
        res.violate(pre + "wrong-sat-verdict", f"op#{n_op} solve returned {r!r} (not a bool) [{tag}]")
        return M
    if r != bool(M):
        res.violate(pre + "wrong-sat-verdict", f"op#{n_op} solve returned {r} but the reference has {len(M)} models of {total} assignments [{tag}]")
        return M
    if not r:
        return M
    facts = expected_facts(decls, M, keys)
    for k, want in facts.items():
        got = sols[k]
        if want is None:
            if got is not None:
                res.violate(pre + "fact-reported-for-undetermined-key", f"op#{n_op} key #{k} reported {got!r} but solutions disagree on it ({len(M)} models) [{tag}]")
                return M
        else:
            if got is None:
                res.violate(pre + "determined-key-reported-none", f"op#{n_op} key #{k} reported None but every one of {len(M)} models has {want!r} [{tag}]")
                return M
            if got != want or (type(got) is bool) != (type(want) is bool):
                if got == want:
                    res.violate(pre + "fact-wrong-type", f"op#{n_op} key #{k} reported {got!r} ({type(got).__name__}), expected {want!r} ({type(want).__name__}) [{tag}]")
                else:
                    res.violate(pre + "wrong-fact-value", f"op#{n_op} key #{k} reported {got!r} but every model has {want!r} [{tag}]")
                return M
            if type(got) is not type(want):
                res.violate(pre + "fact-wrong-type", f"op#{n_op} key #{k} reported {got!r} ({type(got).__name__}), expected {type(want).__name__} [{tag}]")
                return M
    return M


def run_long(sc) -> RunResult:
    cspuz = core.import_cspuz()
    from cspuz import expr as E

    res = RunResult()
    res.log("start", ID, sc.get("seed"), "long")
    res.hit("scenario:long_refute_loop_one_key_per_call")
    decls = sc["decls"]
    forced = {int(k): v for k, v in sc["forced"].items()}
    keys = sc["keys"]
    n = len(decls)
    tag = f"route A one-flip-per-call adversary, {n} variables"
    state = {"calls": 0, "cap": 8 + 3 * sum((2 if decls[i]["t"] == "b" else decls[i]["hi"] - decls[i]["lo"] + 1) for i in keys)}

    def default_value(i):
        if i in forced:
            return forced[i]
        d = decls[i]
        if d["t"] == "b":
            return bool(sc.get("start_high"))
        return d["hi"] if sc.get("start_high") else d["lo"]

    class ChainBackend:
        """A correct backend for programs of independent variables (some forced): it keeps its
        previous model and changes a single free variable per call whenever that suffices."""

        def __init__(self, variables):
            self.variables = list(variables)
            self.pos = {v.id: p for p, v in enumerate(self.variables)}
            self.cs = []
            self.preds = []
            self.model = None

        def add_constraint(self, c):
            new = c if isinstance(c, list) else [c]
            self.cs.extend(new)
            self.preds.append(peers.compile_exprs(new, self.pos, E))

        def solve_irrefutably(self, is_answer_key):
            raise NotImplementedError

        def solve(self):
            state["calls"] += 1
            res.steps += 1
            if state["calls"] > state["cap"]:
                raise peers.NoReturnWithinBound(f"backend solve() called {state['calls']} times, bound {state['cap']}")
            preds = self.preds

            def pred(m):
                # newest constraints first: they are the ones a sticky model most likely violates
                return all(p(m) for p in reversed(preds))

            base = self.model or [default_value(i) for i in range(n)]
            cands = [list(base)]
            for i in range(n):  # one free variable changed
                if i in forced:
                    continue
                d = decls[i]
                for v in ((not base[i],) if d["t"] == "b" else tuple(x for x in range(d["lo"], d["hi"] + 1) if x != base[i])):
                    m = list(base)
                    m[i] = v
                    cands.append(m)
            first = [default_value(i) for i in range(n)]
            flipped = [first[i] if i in forced else ((not first[i]) if decls[i]["t"] == "b" else (decls[i]["hi"] if first[i] != decls[i]["hi"] else decls[i]["lo"])) for i in range(n)]
            cands.append(flipped)  # every free variable away from the first model: satisfies any clause a free key can satisfy
            for m in cands:
                if pred(m):
                    self.model = m
                    for p, v in enumerate(self.variables):
                        v.sol = m[p]
                    return True
            return False

    with warnings.catch_warnings():
        warnings.simplefilter("ignore")
        try:
            s = cspuz.Solver()
            vs = [s.bool_var() if d["t"] == "b" else s.int_var(d["lo"], d["hi"]) for d in decls]
            for i, v in forced.items():
                s.ensure(vs[i] if v is True else ~vs[i] if v is False else vs[i] == v)
            s.add_answer_key([vs[i] for i in keys])
            try:
                r = s.solve(backend=ChainBackend)
            except peers.NoReturnWithinBound as e:
                res.violate("C02/no-return-within-bound", f"solve(): {e} [{tag}]")
                return res
            sols = [v.sol for v in vs]
            res.log("long", r, state["calls"])
            res.hit("backend_calls_per_solve:" + ("100+" if state["calls"] >= 100 else "33-99" if state["calls"] > 32 else "<=32"))
            if r is not True:
                res.violate("C02/wrong-sat-verdict", f"solve returned {r!r} for a satisfiable program [{tag}]")
                return res
            res.nontrivial = True
            for k in keys:
                d = decls[k]
                determined = k in forced or (d["t"] == "i" and d["lo"] == d["hi"])
                want = forced.get(k, d.get("lo")) if determined else None
                got = sols[k]
                if want is None and got is not None:
                    res.violate("C02/fact-reported-for-undetermined-key", f"key #{k} reported {got!r} but it is free ({state['calls']} backend calls) [{tag}]")
                    return res
                if want is not None and (got != want or type(got) is not type(want)):
                    res.violate("C02/determined-key-reported-none" if got is None else "C02/wrong-fact-value", f"key #{k} reported {got!r}, it is forced to {want!r} [{tag}]")
                    return res
        except Exception as e:
            res.violate("C02/unexpected-exception", f"long program: {type(e).__name__}: {str(e)[:200]} [{tag}]")
    return res


def run_big(sc) -> RunResult:
    cspuz = core.import_cspuz()
    res = RunResult()
    core.fresh_z3_context()
    res.log("start", ID, sc.get("seed"), "big")
    res.hit("scenario:big_program_known_models_oracle")
    decls, cs, known, keys = sc["decls"], sc["cs"], sc["known"], sc["keys"]
    tag = "route B z3 big"
    z3cap = {}
    with peers.counted_z3(z3cap), warnings.catch_warnings():
        warnings.simplefilter("ignore")
        try:
            s = cspuz.Solver()
            vs = [s.bool_var() if d["t"] == "b" else s.int_var(d["lo"], d["hi"]) for d in decls]
            b = refsem.Builder(vs)
            if cs:
                s.ensure(*_nest([b.build(c) for c in cs], sc.get("nest", 0)))
            if keys:
                s.add_answer_key(*key_arg(vs, keys, sc.get("form", 0)))
            z3cap["calls"] = 0
            z3cap["cap"] = 8 + 3 * sum((2 if decls[i]["t"] == "b" else decls[i]["hi"] - decls[i]["lo"] + 1) for i in keys)
            try:
                r = s.solve(backend="z3")
            except peers.NoReturnWithinBound as e:
                res.violate("C02/no-return-within-bound", f"solve(): {e} [{tag}]")
                return res
            sols = [v.sol for v in vs]
            res.steps += 1 + z3cap.get("calls", 0)
            res.log("big", r, [sols[i] for i in keys], z3cap.get("calls"))
            res.hit("backend_calls_per_solve:" + ("13+" if z3cap.get("calls", 0) > 12 else "<=12"))
            if r is not True:
                res.violate("C02/wrong-sat-verdict", f"solve returned {r!r} but {len(known)} models are known [{tag}]")
                return res
            w = known[0]
            for k in keys:
                got = sols[k]
                if len({m[k] for m in known}) > 1:
                    if got is not None:
                        res.violate("C02/fact-reported-for-undetermined-key", f"key #{k} reported {got!r} but two known models disagree on it ({sorted({m[k] for m in known})[:4]}) [{tag}]")
                        return res
                    res.nontrivial = True
                elif got is not None:
                    if got != w[k]:
                        res.violate("C02/wrong-fact-value", f"key #{k} reported {got!r} but a known model has {w[k]!r} [{tag}]")
                        return res
                    if type(got) is not type(w[k]):
                        res.violate("C02/fact-wrong-type", f"key #{k} reported {got!r} ({type(got).__name__}), expected {type(w[k]).__name__} [{tag}]")
                        return res
        except Exception as e:
            res.violate("C02/unexpected-exception", f"big program: {type(e).__name__}: {str(e)[:200]} [{tag}]")
    return res


def run(sc) -> RunResult:
    if sc.get("long"):
        return run_long(sc)
    if sc.get("big"):
        return run_big(sc)
    cspuz = core.import_cspuz()
    from cspuz import expr as E

    res = RunResult()
    core.fresh_z3_context()
    res.log("start", ID, sc.get("seed"), sc["route"], sc.get("backend"))
    route = sc["route"]
    ctx = peers.SimContext(res, policy=sc.get("policy"), quirks=sc.get("quirks"), native=(route == "D"))
    Sim = peers.make_sim_backend(ctx, E)
    peer = peers.SugarPeer(res, policy=sc.get("policy"), fmt=sc.get("fmt"))
    z3cap = {}
    if route in ("A", "D"):
        backend = Sim
        tag = f"route {route} policy={ctx.policy['name']}"
    elif route == "B":
        backend = "z3"
        tag = "route B z3"
    else:
        backend = sc["backend"]
        tag = f"route C {backend} policy={peer.policy['name']}"
    res.hit("route:" + route + (":" + sc["backend"] if route == "C" else ""))

    solver = cspuz.Solver()
    vars_ = []
    decls = []
    constraints = []
    keys = set()
    maybe_keys = set()  # variables named in a rejected add_answer_key call before the offending one
    saved_cfg = (cspuz.config.backend_path, cspuz.config.solver_timeout)
    cspuz.config.backend_path = None
    cspuz.config.solver_timeout = None
    try:
        with peers.installed_peer(peer), peers.counted_z3(z3cap), warnings.catch_warnings():
            warnings.simplefilter("ignore")
            for n_op, op in enumerate(sc["ops"]):
                k = op["op"]
                res.steps += 1
                fired0 = ctx.faults_fired + z3cap.get("faults_fired", 0) + peer.faults_fired
                try:
                    if k == "arm_fault":
                        # the next query meets a failing solver (whichever seam the route talks to)
                        ctx.arm_fault(op["n"], op.get("torn", 0))
                        peer.fault_in = op["n"]
                        z3cap["fault_in"] = op["n"]
                        z3cap["fault_kind"] = op.get("kind", "unknown")
                        z3cap["result"] = res
                        res.log("op", n_op, "arm_fault", op["n"], op.get("torn", 0), op.get("kind"))
                        continue
                    if k == "rejected":
                        w = op["what"]
                        try:
                            if w == "key_dup":
                                new = [vars_[i] for i in op["new"]]
                                d = vars_[op["dup"]]
                                if op["dup"] in op["new"]:
                                    args = new + [d]
                                elif op.get("pos") == "first":
                                    args = [d] + new
                                elif op.get("pos") == "middle" and new:
                                    args = new[:1] + [d] + new[1:]
                                else:
                                    args = new + [d]
                                solver.add_answer_key(*args)
                            elif w == "key_bad":
                                solver.add_answer_key(5)
                            elif w == "ensure_int":
                                solver.ensure(7)
                            else:
                                solver.int_array(2, op["lo"], op["hi"])
                        except Exception as e:  # whatever its type, the call was rejected
                            res.hit("fault:api_call_rejected:" + w)
                            res.log("op", n_op, "rejected", w, type(e).__name__)
                        else:
                            # accepted after all: what was registered / posted / declared is no longer known
                            res.hit("inconclusive:rejected_call_was_accepted:" + w)
                            res.inconclusive = True
                            res.log("op", n_op, "rejected", w, "accepted")
                            break
                        if w == "key_dup":
                            maybe_keys.update(op["new"])
                        continue
                    if k == "bool_var":
                        vars_.append(solver.bool_var())
                        decls.append({"t": "b"})
                    elif k == "int_var":
                        vars_.append(solver.int_var(op["lo"], op["hi"]))
                        decls.append({"t": "i", "lo": op["lo"], "hi": op["hi"]})
                    elif k == "ensure":
                        b = refsem.Builder(vars_)
                        solver.ensure(*_nest([b.build(c) for c in op["cs"]], op.get("nest", 0)))
                        constraints.extend(op["cs"])
                    elif k == "add_key":
                        solver.add_answer_key(*key_arg(vars_, op["ids"], op.get("form", 0)))
                        keys.update(op["ids"])
                    elif k == "scribble":
                        vars_[op["id"]].sol = op["val"]
                        res.hit("perturb:sol_scribble")
                    elif k == "find_answer":
                        cap = None
                        ctx.cap = peer.cap = None
                        z3cap["cap"] = None
                        try:
                            solver.find_answer(backend=backend)
                        finally:
                            ctx.disarm_fault()
                            peer.fault_in = z3cap["fault_in"] = None
                        res.hit("perturb:find_answer_between")
                    elif k == "solve":
                        bound = 8 + 3 * sum((2 if decls[i]["t"] == "b" else decls[i]["hi"] - decls[i]["lo"] + 1) for i in keys | maybe_keys)
                        ctx.reset_calls()
                        ctx.cap = bound
                        peer.calls = 0
                        peer.cap = bound
                        z3cap["calls"] = 0
                        z3cap["cap"] = bound
                        try:
                            r = solver.solve(backend=backend)
                        except peers.NoReturnWithinBound as e:
                            res.violate("C02/no-return-within-bound", f"op#{n_op} solve(): {e} [{tag}]")
                            res.log("op", n_op, "solve", "no-return")
                            continue
                        finally:
                            ctx.disarm_fault()
                            peer.fault_in = z3cap["fault_in"] = None
                        if ctx.faults_fired + z3cap.get("faults_fired", 0) + peer.faults_fired > fired0:
                            res.hit("fault:absorbed_query_returned")
                            if route == "C":
                                # the Sugar-family contract only speaks about well-formed replies
                                res.log("op", n_op, "solve", "returned-after-solver-failure")
                                continue
                        sols = [v.sol for v in vars_]
                        calls = ctx.calls if route in ("A", "D") else (z3cap.get("calls", 0) if route == "B" else peer.calls)
                        res.log("op", n_op, "solve", r, sols, calls)
                        M = check_solve(res, "C02", tag, decls, constraints, keys, r, sols, n_op)
                        total = refsem.domain_product(decls)
                        res.states.add(hashlib.sha256(repr((decls, sorted(keys), M)).encode()).hexdigest()[:16])
                        if keys and 0 < len(M) < total:
                            res.nontrivial = True
                        res.hit("backend_calls_per_solve:" + (str(calls) if calls < 6 else "6-8" if calls <= 8 else "9-12" if calls <= 12 else "13+"))
                        if not M:
                            res.hit("probe:unsat")
                        elif keys:
                            f = expected_facts(decls, M, keys)
                            nd = sum(1 for v in f.values() if v is not None)
                            if nd == len(f):
                                res.hit("probe:all_keys_determined")
                            elif nd == 0:
                                res.hit("probe:no_key_determined")
                            else:
                                res.hit("probe:some_keys_determined")
                            if route == "A":
                                _demotion_probes(res, keys)
                        else:
                            res.hit("probe:no_answer_keys")
                    else:
                        raise core.HarnessError(f"unknown op {k}")
                except core.HarnessError:
                    raise
                except Exception as e:
                    if ctx.faults_fired + z3cap.get("faults_fired", 0) + peer.faults_fired > fired0:
                        # the injected failure reached the caller: nothing was claimed; later queries are checked as usual
                        res.hit("fault:failure_propagated_to_caller")
                        res.log("op", n_op, k, "failed-with-the-solver", type(e).__name__)
                        continue
                    res.violate("C02/unexpected-exception", f"op#{n_op} {k} raised {type(e).__name__}: {str(e)[:200]} [{tag}]")
                    res.log("op", n_op, k, "exception", type(e).__name__)
            # wire-level sanity of route C: no protocol errors seen by the peer
            for entry, text, prog in peer.received:
                if isinstance(prog, peers.ProtocolError):
                    res.violate("C02/unexpected-exception", f"peer could not read the CSP description sent through {entry}: {prog} [{tag}]")
                    break
    finally:
        cspuz.config.backend_path, cspuz.config.solver_timeout = saved_cfg
    return res


def _demotion_probes(res, keys):
    """From the backend event log of the last solve(): how many keys changed per iteration."""
    models = []
    for ev in reversed(res.events):
        if ev[0] == "op":
            if models:
                break
            continue
        if ev[0] == "backend" and ev[1] == "solve" and ev[3] is not None:
            models.append(ev[3])
    models.reverse()
    if len(models) < 2:
        return
    cand = {k: models[0][k] for k in keys}
    for m in models[1:]:
        changed = [k for k in list(cand) if cand[k] is not None and m[k] != cand[k]]
        for k in changed:
            cand[k] = None
        if len(changed) >= 2:
            res.hit("probe:two_or_more_keys_demoted_in_one_iteration")
        elif len(changed) == 1:
            res.hit("probe:single_key_demoted_in_one_iteration")
    if len(models) >= 4:
        res.hit("probe:four_or_more_models_seen_in_one_solve")


def shrink_candidates(sc):
    if sc.get("long"):
        n = len(sc["decls"])
        if n > 1:
            for m in (n // 2, n - 1):
                yield dict(sc, decls=sc["decls"][:m], forced={k: v for k, v in sc["forced"].items() if int(k) < m}, keys=[i for i in sc["keys"] if i < m])
        for k2 in core.ddmin_list(sc["keys"]):
            yield dict(sc, keys=k2)
        return
    if sc.get("big"):
        for c2 in core.ddmin_list(sc["cs"]):
            yield dict(sc, cs=c2)
        for k2 in core.ddmin_list(sc["keys"]):
            yield dict(sc, keys=k2)
        for m2 in core.ddmin_list(sc["known"]):
            if m2:
                yield dict(sc, known=m2)
        for j, c in enumerate(sc["cs"]):
            for sm in refsem.shrink_ast(c, "B"):
                yield dict(sc, cs=sc["cs"][:j] + [sm] + sc["cs"][j + 1 :])
        return
    ops = sc["ops"]
    for cand in core.ddmin_list(ops):
        yield dict(sc, ops=cand)
    decls = decls_after(ops, 1)[0]
    for vid in reversed(range(len(decls))):
        c = drop_var(sc, 0, vid)
        if c is not None:
            yield c
    for n, op in enumerate(ops):
        if op["op"] == "ensure":
            for cs in core.ddmin_list(op["cs"]):
                if cs:
                    yield dict(sc, ops=ops[:n] + [dict(op, cs=cs)] + ops[n + 1 :])
            for j, c in enumerate(op["cs"]):
                for sm in refsem.shrink_ast(c, "B"):
                    yield dict(sc, ops=ops[:n] + [dict(op, cs=op["cs"][:j] + [sm] + op["cs"][j + 1 :])] + ops[n + 1 :])
            if op.get("nest", 0) != 0:
                yield dict(sc, ops=ops[:n] + [dict(op, nest=0)] + ops[n + 1 :])
        elif op["op"] == "int_var":
            for lo in core.shrink_int(op["lo"]):
                if lo <= op["hi"]:
                    yield dict(sc, ops=ops[:n] + [dict(op, lo=lo)] + ops[n + 1 :])
            for hi in core.shrink_int(op["hi"], op["lo"]):
                if hi >= op["lo"]:
                    yield dict(sc, ops=ops[:n] + [dict(op, hi=hi)] + ops[n + 1 :])
        elif op["op"] == "add_key":
            for ids in core.ddmin_list(op["ids"]):
                yield dict(sc, ops=ops[:n] + [dict(op, ids=ids)] + ops[n + 1 :])
    if sc.get("policy", {}).get("name") not in (None, "lexmin"):
        yield dict(sc, policy={"name": "lexmin"})
    if sc.get("quirks"):
        yield dict(sc, quirks={})
    if sc.get("fmt") and sc["fmt"] != {"order": "java", "final_newline": True}:
        yield dict(sc, fmt={"order": "java", "final_newline": True})
