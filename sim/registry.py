"""Property id -> module implementing generate / run / valid / shrink_candidates."""

import importlib

_MODULES = {
    "C01": "sim.c01_session",
    "C02": "sim.c02_solve",
    "C03": "sim.c03_wire",
    "C18": "sim.c18_segment",
    "C19": "sim.c19_generator",
    "C20": "sim.c20_config",
}


def ids():
    return list(_MODULES)


def get(prop_id):
    return importlib.import_module(_MODULES[prop_id])
