"""C19 - Problem generation is sound and reproducible under the deterministic PRNG.

Three families of scenarios share this module (field ``kind``):

 prng      the simulator *is* the raw generator: deterministic_random._rng is replaced by a
           scripted source and _XORSHIFT_DOMAIN_SIZE by a reduced domain 2^k, so the whole output
           space is enumerated (exact uniformity, re-draw after rejection), plus boundary outputs
           on the real 2^32 domain, the real XorShift's reseed contract and the srandom switch.
 gen       generate_problem is run against fake peers (solver / score / uniqueness / pretest /
           clue_penalty callbacks written by the simulator) with history oracles, and - when the
           deterministic PRNG is on - run twice under different interference (global random seed,
           random consumption inside callbacks, backend of the real tiny puzzle); the candidate
           sequences and results must be identical.
 hashseed  a gen scenario re-executed in a fresh interpreter under another PYTHONHASHSEED.
"""

from __future__ import annotations

import copy
import hashlib
import itertools
import json
import math
import os
import random as pyrandom
import subprocess
import sys
import warnings

from sim import core, peers
from sim.core import RunResult, sub_seed
from sim import c18_segment

ID = "C19"
TIERS = {"quick": 20000, "thorough": 300000}
RULE = (
    "seeded runs: 88% gen scenarios (builder pattern = Choice / ArrayBuilder2D with symmetry, disallow_adjacent, use_move, initial / "
    "SegmentationBuilder2D / nested lists and tuples; fake solver whose sat / decided-cells answer is a pure function of the problem "
    "digest; optional fake score, uniqueness, pretest, clue_penalty; callbacks interfere with Python's global random; 8% of them use a "
    "real tiny clue puzzle solved through Solver.solve with z3 vs adversarial SimBackend), each executed twice under different "
    "interference when the deterministic PRNG is on; 12% prng scenarios on the real 2^32 domain. Before the seeded runs an exhaustive "
    "enumeration of the reduced PRNG domains 2^k and a fresh-interpreter PYTHONHASHSEED comparison are executed. Non-trivial gen run = "
    ">=1 accepted and >=1 rejected neighbour; non-trivial prng run = >=1 rejected raw output followed by a re-draw; distinct = distinct "
    "event-log SHA-256"
    '; fault injection: in 24% of the deterministic gen runs the second execution is preceded, in the same process, by a generation whose solver callback raises at its k-th call or by a generate_problem call that is rejected for its arguments; rejected PRNG calls (bad range, too wide, empty choice) precede every second enumeration; 12% of the tuple/list patterns hold the same builder object at two positions, 30% of the shared-pattern runs walk the kept (initial, generator) pair twice more, 30% of the start grids with the adjacency option hold touching clues, 20% of the segmentation start values have holes'
)
STATE_MEASURE = "distinct problem digests handed to the solver callback"
COMPONENTS = {
    "real": [
        "cspuz.generator.core.generate_problem, default_score_calculator, default_uniqueness_checker",
        "cspuz.generator.builder (build_neighbor_generator, Choice, ArrayBuilder2D)",
        "cspuz.generator.segmentation.SegmentationBuilder2D",
        "cspuz.generator.srandom, deterministic_random (randint/choice/shuffle/random, XorShift)",
        "cspuz.Solver + backend z3 (real tiny puzzle variant)",
    ],
    "stub": ["solver / score / uniqueness / pretest / clue_penalty callbacks (fake peers)", "scripted raw generator behind deterministic_random._rng", "SimBackend sticky / contrarian (real tiny puzzle variant)"],
}
ASSUMPTIONS = [
    "initial problems handed to builders are inside the choice set, point symmetric when symmetry is on and adjacency free when disallow_adjacent is on",
    "uniformity is asserted as exact counting on an enumerated reduced output domain (never a statistical test); this sub-check uses the internal names deterministic_random._rng and _XORSHIFT_DOMAIN_SIZE",
    "bit-for-bit equality with Marsaglia's xorshift128 is deliberately not an oracle",
    "the fake solver is a pure function of the problem value, so equal problems get equal answers in both executions",
]


CALLBACK_CAP = 2500  # callbacks (solver, score, uniqueness, pretest, penalty) per execution


class ScriptExhausted(Exception):
    pass


class _StopRun(Exception):
    pass


class Scripted:
    def __init__(self, script):
        self.script = list(script)
        self.pos = 0

    def next(self):
        if self.pos >= len(self.script):
            raise ScriptExhausted()
        v = self.script[self.pos]
        self.pos += 1
        return v


def H(*parts) -> float:
    h = hashlib.sha256(":".join(map(str, parts)).encode()).digest()
    return int.from_bytes(h[:8], "big") / 2.0**64


def Hi(*parts) -> int:
    h = hashlib.sha256(":".join(map(str, parts)).encode()).digest()
    return int.from_bytes(h[:8], "big")


# ======================================================================================
# generation
# ======================================================================================


def _gen_array(rng, vast=False):
    h = rng.choice([1, 1, 2, 2, 3, 3, 4])
    w = rng.choice([1, 2, 2, 3, 3, 4, 5, 6])
    if vast:
        # puzzle-sized boards: thousands of candidate updates per step
        h, w = rng.choice([(16, 16), (20, 20), (12, 30), (17, 17)])
    choice, default = rng.choice(
        [
            ([-1, 0, 1, 2], -1),
            ([0, 1], 0),
            ([0, 1, 2, 3], 0),
            (["", "a", "b"], ""),
            ([None, 1, 2], None),
            ([0, 1, 2], 2),
            ([5, 7], 7),
        ]
    )
    if vast:
        choice, default = list(range(-1, rng.choice([6, 9, 10]))), -1
    symmetry = rng.random() < 0.4
    use_move = rng.random() < 0.3
    r = rng.random()
    if r < 0.5:
        dis = False
    elif r < 0.85:
        dis = True
    else:
        dis = rng.choice(
            [
                [[-1, 0], [1, 0], [0, -1], [0, 1], [-1, -1], [1, 1], [-1, 1], [1, -1]],
                [[0, -1], [0, 1]],
                [[-1, -1], [1, 1]],
            ]
        )
    opts = {"disallow_adjacent": dis, "symmetry": symmetry, "use_move": use_move, "initial": None}
    if rng.random() < 0.45:
        opts["initial"] = _gen_initial_grid(rng, h, w, choice, default, dis, symmetry)
    r2 = pyrandom.Random(rng.random())  # one draw: the rest of the scenario stream is unchanged
    if opts["initial"] is not None and dis and not use_move and not vast and r2.random() < 0.3:
        # a start grid in which two clues already touch (legal input; value-setting updates can never produce it)
        g = opts["initial"]
        offs = _offsets(dis)
        nd = [c for c in choice if c != default]
        cells = [(y, x) for y in range(h) for x in range(w) if g[y][x] != default]
        r2.shuffle(cells)
        for y, x in cells:
            cand = [(y + dy, x + dx) for dy, dx in offs if 0 <= y + dy < h and 0 <= x + dx < w and g[y + dy][x + dx] == default]
            if cand:
                yy, xx = r2.choice(cand)
                g[yy][xx] = r2.choice(nd)
                if symmetry:
                    g[h - 1 - yy][w - 1 - xx] = r2.choice(nd) if (h - 1 - yy, w - 1 - xx) != (yy, xx) else g[yy][xx]
                break
    return ["array", h, w, choice, default, opts]


def _offsets(dis):
    if dis is True:
        return [(-1, 0), (1, 0), (0, -1), (0, 1)]
    if dis is False:
        return []
    return [tuple(o) for o in dis]


def _touching(grid, default, offs, h, w):
    if grid is None:
        return False
    for y in range(h):
        for x in range(w):
            if grid[y][x] != default:
                for dy, dx in offs:
                    yy, xx = y + dy, x + dx
                    if 0 <= yy < h and 0 <= xx < w and grid[yy][xx] != default:
                        return True
    return False


def _gen_initial_grid(rng, h, w, choice, default, dis, symmetry):
    grid = [[default] * w for _ in range(h)]
    non_default = [c for c in choice if c != default]
    offs = _offsets(dis)
    cells = [(y, x) for y in range(h) for x in range(w)]
    rng.shuffle(cells)
    p = rng.choice([0.2, 0.4, 0.7])

    def free(y, x, extra=()):
        for dy, dx in offs:
            yy, xx = y + dy, x + dx
            if 0 <= yy < h and 0 <= xx < w and (grid[yy][xx] != default or (yy, xx) in extra):
                return False
        return True

    for y, x in cells:
        if grid[y][x] != default or rng.random() > p:
            continue
        if symmetry:
            y2, x2 = h - 1 - y, w - 1 - x
            if (y2 - y, x2 - x) in offs:
                continue
            if not free(y, x) or not free(y2, x2):
                continue
            grid[y][x] = rng.choice(non_default)
            grid[y2][x2] = rng.choice(non_default) if (y2, x2) != (y, x) else grid[y][x]
        else:
            if not free(y, x):
                continue
            grid[y][x] = rng.choice(non_default)
    return grid


def _gen_seg(rng):
    h = rng.choice([1, 2, 2, 3])
    w = rng.choice([1, 2, 3, 3])
    n = h * w
    target = c18_segment.random_partition(rng, h, w, rng.randint(1, n))
    sizes = [len(b) for b in target]
    nb = len(target)

    def opt(gen):
        return None if rng.random() < 0.4 else gen()

    out = [
        "seg",
        h,
        w,
        opt(lambda: rng.randint(1, nb)),
        opt(lambda: rng.randint(nb, n)),
        opt(lambda: rng.randint(1, min(sizes))),
        opt(lambda: rng.randint(max(sizes), n)),
        rng.random() < 0.3,
        target if rng.random() < 0.5 else None,
    ]
    r = pyrandom.Random(rng.random())  # one draw: the rest of the scenario stream is unchanged
    if out[8] is not None and nb >= 2 and r.random() < 0.2:
        # a board with holes: the start segmentation leaves some cells outside every block (the
        # builder treats them as not part of the region)
        keep = list(target)
        del keep[r.randrange(nb)]
        out[8] = keep
        out[3] = None if out[3] is None else min(out[3], len(keep))
        out[5] = None if out[5] is None else min(out[5], min(len(b) for b in keep))
    return out


def _gen_choice(rng):
    vals = rng.choice([[0, 1, 2], [1, 2, 3, 4, 5], ["x", "y"], [0, 1], [[0, 0], [0, 1], [1, 0]], [-1, 3, 7, 9]])
    return ["choice", vals, rng.choice(vals)]


def _gen_leaf(rng, allow_seg=True):
    k = rng.choices(["array", "choice", "seg"], weights=[6, 2, 2 if allow_seg else 0])[0]
    if k == "array":
        return _gen_array(rng)
    if k == "choice":
        return _gen_choice(rng)
    return _gen_seg(rng)


def _gen_pattern(rng):
    r = rng.random()
    if r < 0.55:
        return _gen_leaf(rng)
    items = []
    for _ in range(rng.randint(1, 3)):
        q = rng.random()
        if q < 0.6:
            items.append(_gen_leaf(rng))
        elif q < 0.75:
            items.append(["const", rng.choice([0, 7, "k", [1, 2]])])
        else:
            items.append(["tuple" if rng.random() < 0.5 else "list", [_gen_leaf(rng), _gen_leaf(rng)]])
    if not any(_has_builder(i) for i in items):
        items.append(_gen_leaf(rng))
    return ["tuple" if r < 0.7 else "list", items]


def _has_builder(p):
    if p[0] in ("array", "choice", "seg"):
        return True
    if p[0] in ("list", "tuple"):
        return any(_has_builder(i) for i in p[1])
    return False


def generate(rng, tier, index):
    r = rng.random()
    if r < 0.12:
        return _gen_prng_real(rng)
    real = r < 0.19
    sc = {"prop": ID, "kind": "gen"}
    det = rng.random() < 0.75
    sc["det_seed"] = (rng.randrange(2**32) if rng.random() < 0.85 else rng.choice([0, 0, 1, 2**32 - 1, 2**32, 2**35 + 5])) if det else None
    sc["py_seed"] = rng.randrange(10**9)
    sc["py_seed2"] = rng.randrange(10**9)
    sc["max_calls"] = rng.choice([10, 25, 60]) if not (tier == "thorough" and rng.random() < 0.3) else rng.choice([100, 200])
    sc["max_steps"] = rng.choice([1, 2, 4, 8, 20, None if not real else 3, 0 if not real else 2])
    sc["truthy"] = rng.choice(["bool", "bool", "int", "obj"])  # how the fake callbacks spell yes / no
    sc["reuse_pattern"] = rng.random() < 0.5  # both executions use the same builder objects
    sc["temperature"] = rng.choice([5.0, 1.0, 0.2])
    sc["decay"] = rng.choice([0.995, 0.9, 0.5])
    sc["solve_initial"] = rng.random() < 0.3
    sc["verbose"] = rng.random() < 0.15  # the progress-printing branches of generate_problem
    sc["use_builder_pattern"] = rng.random() < 0.4
    sc["interfere"] = [rng.choice(["none", "consume", "reseed"]), rng.choice(["consume", "reseed", "consume"])]
    sc["consume_n"] = [rng.randint(0, 3), rng.randint(1, 7)]
    if real:
        h = rng.choice([1, 2, 2])
        w = rng.choice([2, 3])
        sc["pattern"] = ["array", h, w, [-1, 0, 1, 2], -1, {"disallow_adjacent": False, "symmetry": rng.random() < 0.4, "use_move": False, "initial": None}]
        sc["solver"] = {"type": "real", "backends": ["z3", rng.choice(["sticky", "contrarian", "lexmax"])]}
        sc["max_calls"] = rng.choice([6, 12, 20])
        sc["max_steps"] = rng.choice([1, 2, 3])
        sc["score"] = sc["uniqueness"] = sc["pretest"] = sc["clue_penalty"] = None
        return sc
    sc["pattern"] = _gen_pattern(rng)
    if rng.random() < 0.004:
        sc["pattern"] = _gen_array(rng, vast=True)
        sc["max_calls"] = rng.choice([2, 4])
        sc["max_steps"] = 2
    shape = rng.choice(["vars", "array2d", "frame", "nested", "plain", "list_first", "deep", "list_first"])
    sc["solver"] = {
        "type": "fake",
        "subseed": rng.randrange(10**9),
        "p_sat": rng.choice([1.0, 0.9, 0.6]),
        "shape": shape,
        "cells": rng.choice([2, 4, 6]),
        "base": rng.choice([0.0, 0.2, 0.5]),
        "slope": rng.choice([0.05, 0.15, 0.4]),
        "ret": rng.choice(["tuple", "tuple", "list", "iter"]),  # any iterable is a legal solver result
    }
    sc["score"] = "fake" if shape == "plain" or rng.random() < 0.3 else None
    sc["uniqueness"] = "fake" if shape == "plain" or rng.random() < 0.3 else None
    sc["pretest"] = rng.choice([None, None, 0.7, 0.9])
    sc["clue_penalty"] = rng.choice([None, None, 1, 3])
    # failure before the second execution (same process, same pattern objects when shared): a call
    # that generate_problem rejects, or a generation during which the solver callback raises
    r = pyrandom.Random(rng.random())  # one draw: the rest of the scenario stream is unchanged
    q = r.random()
    if q < 0.12:
        sc["failure_first"] = {"kind": "rejected_call", "form": r.choice(["both", "both", "neither"])}
    elif q < 0.24:
        sc["failure_first"] = {"kind": "solver_raises", "at": r.choice([0, 1, 1, 2, 3, 5])}
    # the same builder OBJECT at two positions of the pattern (a copy of one leaf is appended and equal leaves
    # are built once), and the (initial problem, neighbour generator) pair kept and walked again
    if sc["pattern"][0] in ("tuple", "list") and r.random() < 0.12:
        leaves = [i for i in sc["pattern"][1] if i[0] in ("array", "seg", "choice")]
        if leaves:
            sc["pattern"] = [sc["pattern"][0], sc["pattern"][1] + [copy.deepcopy(r.choice(leaves))]]
            sc["share_equal_leaves"] = r.random() < 0.7
    if sc["reuse_pattern"] and not sc["use_builder_pattern"] and sc["det_seed"] is not None and r.random() < 0.3:
        sc["share_pair"] = True
    return sc


def _gen_prng_real(rng):
    t = rng.choice(["real_randint", "real_randint", "xorshift", "switch", "real_shuffle"])
    sc = {"prop": ID, "kind": "prng", "test": t, "s": rng.randrange(2**40) if rng.random() < 0.8 else rng.choice([0, 0, 1, 2**31, 2**32 - 1, 2**32])}
    if t == "real_randint":
        a = rng.choice([0, 0, 1, -5, 3, 100, -(2**31), rng.randint(-50, 50)])
        w = rng.choice([1, 2, 3, 5, 6, 7, 10, 100, 1000, 2**16 + 1, 2**31 + 3, 2**32 - 1, 2**32, rng.randint(1, 2**32)])
        sc["a"] = a
        sc["b"] = a + w - 1
    if t == "real_shuffle":
        sc["n"] = rng.randint(0, 12) if rng.random() < 0.8 else rng.choice([255, 256, 257, 1000, 5000])
    if pyrandom.Random(rng.random()).random() < 0.4:
        sc["reject_first"] = True
    return sc


# ======================================================================================
# validity
# ======================================================================================


def _valid_pattern(p):
    t = p[0]
    if t == "const":
        return True
    if t == "choice":
        return len(p[1]) >= 1 and p[2] in p[1]
    if t == "array":
        _, h, w, choice, default, opts = p
        if h < 1 or w < 1 or default not in choice or len(choice) < 2:
            return False
        offs = _offsets(opts["disallow_adjacent"])
        if any((-dy, -dx) not in offs for dy, dx in offs):
            return False
        g = opts["initial"]
        if g is not None:
            if len(g) != h or any(len(r) != w for r in g):
                return False
            for y in range(h):
                for x in range(w):
                    if g[y][x] not in choice:
                        return False
                    if opts["symmetry"] and (g[y][x] != default) != (g[h - 1 - y][w - 1 - x] != default):
                        return False
        return True
    if t == "seg":
        _, h, w, mn, mx, ms, xs, allow, init = p
        if h < 1 or w < 1:
            return False
        if init is not None and not _is_partial_partition_json(init, h, w):
            return False
        return all(v is None or v >= 1 for v in (mn, mx, ms, xs))
    if t in ("list", "tuple"):
        return all(_valid_pattern(i) for i in p[1])
    return False


def _is_partial_partition_json(blocks, h, w):
    """Non-empty connected disjoint blocks inside the board (cells outside every block are holes)."""
    seen = set()
    if not blocks:
        return False
    for b in blocks:
        if not b:
            return False
        for y, x in b:
            if not (0 <= y < h and 0 <= x < w) or (y, x) in seen:
                return False
            seen.add((y, x))
        if not c18_segment._connected([tuple(c) for c in b]):
            return False
    return True


def valid(sc):
    try:
        if sc["kind"] == "prng":
            if sc["test"] == "shuffle_vary" and sc["n"] > (1 << sc["k"]):
                return False  # randint(0, i) needs i + 1 <= raw output domain
            return sc["test"] in ("randint", "choice", "shuffle", "shuffle_vary", "random", "real_randint", "xorshift", "switch", "real_shuffle")
        if sc["kind"] == "hashseed":
            return valid(sc["inner"])
        if sc["kind"] != "gen":
            return False
        if not _valid_pattern(sc["pattern"]) or not _has_builder(sc["pattern"]):
            return False
        if sc["solver"]["type"] == "fake" and sc["solver"]["shape"] == "plain" and (sc["score"] is None or sc["uniqueness"] is None):
            return False
        return sc["max_calls"] >= 1
    except (KeyError, TypeError, IndexError, ValueError):
        return False


# ======================================================================================
# execution: dispatcher
# ======================================================================================


def run(sc) -> RunResult:
    core.import_cspuz()
    core.fresh_z3_context()
    res = RunResult()
    res.log("start", ID, sc.get("seed"), sc["kind"], sc.get("test"))
    if sc["kind"] == "prng":
        _run_prng(sc, res)
    elif sc["kind"] == "gen":
        _run_gen(sc, res)
    elif sc["kind"] == "hashseed":
        _run_hashseed(sc, res)
    else:
        raise core.HarnessError("unknown kind")
    return res


# ======================================================================================
# (a) PRNG contract
# ======================================================================================


class _RngSeam:
    def __init__(self, domain=None, script=None):
        import cspuz.generator.deterministic_random as dr
        import cspuz.generator.srandom as srandom

        self.dr = dr
        self.srandom = srandom
        self.saved = (dr._rng, dr._XORSHIFT_DOMAIN_SIZE, srandom._use_deterministic_prng, pyrandom.getstate())
        self.domain = domain

    def __enter__(self):
        if self.domain is not None:
            self.dr._XORSHIFT_DOMAIN_SIZE = self.domain
        return self

    def script(self, outputs):
        s = Scripted(outputs)
        self.dr._rng = s
        return s

    def __exit__(self, *exc):
        self.dr._rng, self.dr._XORSHIFT_DOMAIN_SIZE, self.srandom._use_deterministic_prng = self.saved[:3]
        pyrandom.setstate(self.saved[3])
        return False


def _names_present():
    import cspuz.generator.deterministic_random as dr

    return hasattr(dr, "_rng") and hasattr(dr, "_XORSHIFT_DOMAIN_SIZE")


def _run_prng(sc, res):
    import cspuz.generator.deterministic_random as dr
    import cspuz.generator.srandom as srandom

    t = sc["test"]
    if not _names_present():
        res.hit("degraded:internal_names_missing")
        res.log("degraded")
        return
    if sc.get("reject_first"):
        # calls the deterministic PRNG rejects (bad range, too wide a range, nothing to choose from);
        # the uniformity / reproducibility statements must hold just the same afterwards
        n_rej = 0
        for f in (lambda: dr.randint(3, 1), lambda: dr.choice([]), lambda: dr.randint(0, dr._XORSHIFT_DOMAIN_SIZE), lambda: srandom.choice(())):
            try:
                f()
            except Exception:
                n_rej += 1
        if n_rej:
            res.hit("fault:rejected_prng_calls_first")
    if t == "randint":
        _prng_randint(sc, res, dr)
    elif t == "choice":
        _prng_choice(sc, res, dr)
    elif t == "shuffle":
        _prng_shuffle(sc, res, dr)
    elif t == "shuffle_vary":
        _prng_shuffle_vary(sc, res, dr)
    elif t == "random":
        _prng_random(sc, res, dr)
    elif t == "real_randint":
        _prng_real_randint(sc, res, dr)
    elif t == "real_shuffle":
        _prng_real_shuffle(sc, res, dr, srandom)
    elif t == "xorshift":
        _prng_xorshift(sc, res, dr)
    elif t == "switch":
        _prng_switch(sc, res, dr, srandom)


def _call(res, kind, what, f):
    """Run f(); an exception other than ScriptExhausted is a violation of the given kind."""
    try:
        return True, f()
    except ScriptExhausted:
        raise
    except Exception as e:
        res.violate(kind, f"{what} raised {type(e).__name__}: {str(e)[:120]}")
        return False, None


def _prng_randint(sc, res, dr):
    D = 1 << sc["k"]
    a, b = sc["a"], sc["b"]
    w = b - a + 1
    what = f"randint({a}, {b}) on a raw output domain of {D}"
    with _RngSeam(D) as seam:
        accepted = {}
        rejected = []
        for x0 in range(D):
            s = seam.script([x0])
            res.steps += 1
            try:
                ok, r = _call(res, "C19/randint-out-of-range", what, lambda: dr.randint(a, b))
                if not ok:
                    return
            except ScriptExhausted:
                rejected.append(x0)
                continue
            if type(r) is not int or not a <= r <= b:
                res.violate("C19/randint-out-of-range", f"{what}: raw output {x0} gave {r!r}")
                return
            accepted[x0] = r
        res.log("randint", D, a, b, len(accepted), len(rejected))
        counts = {}
        for r in accepted.values():
            counts[r] = counts.get(r, 0) + 1
        missing = [v for v in range(a, b + 1) if v not in counts]
        if missing or len(set(counts.values())) > 1:
            res.violate(
                "C19/randint-not-uniform",
                f"{what}: accepted outputs per value are not equal: {dict(sorted(counts.items()))}"
                + (f"; never produced: {missing[:6]}" if missing else ""),
            )
            return
        if rejected:
            res.nontrivial = True
            res.hit("probe:rejection_branch_taken", len(rejected))
            some_accepted = sorted(accepted)[:: max(1, len(accepted) // 4)][:4]
            for x0 in rejected:
                for x1 in some_accepted:
                    s = seam.script([x0, x1])
                    res.steps += 1
                    try:
                        r = dr.randint(a, b)
                    except ScriptExhausted:
                        res.violate("C19/no-redraw-after-rejection", f"{what}: after rejected output {x0} the acceptable output {x1} was not used")
                        return
                    if r != accepted[x1] or s.pos != 2:
                        res.violate(
                            "C19/no-redraw-after-rejection",
                            f"{what}: outputs [{x0}, {x1}] gave {r!r} after {s.pos} draws; a fresh draw of {x1} gives {accepted[x1]}",
                        )
                        return


def _prng_choice(sc, res, dr):
    D = 1 << sc["k"]
    n = sc["n"]
    cand = [f"c{i}" for i in range(n)]
    what = f"choice over {n} candidates on a raw output domain of {D}"
    with _RngSeam(D) as seam:
        counts = {}
        rej = 0
        for x0 in range(D):
            seam.script([x0])
            res.steps += 1
            try:
                ok, r = _call(res, "C19/choice-not-uniform", what, lambda: dr.choice(cand))
                if not ok:
                    return
            except ScriptExhausted:
                rej += 1
                continue
            if r not in cand:
                res.violate("C19/choice-not-uniform", f"{what}: returned {r!r}, not a candidate")
                return
            counts[r] = counts.get(r, 0) + 1
        res.log("choice", D, n, sorted(counts.items()), rej)
        if len(counts) != n or len(set(counts.values())) > 1:
            res.violate("C19/choice-not-uniform", f"{what}: accepted outputs per candidate {dict(sorted(counts.items()))}")
            return
        if rej:
            res.nontrivial = True
        if cand != [f"c{i}" for i in range(n)]:
            res.violate("C19/choice-not-uniform", f"{what}: the candidate list was modified")


def _prng_shuffle(sc, res, dr):
    D = 1 << sc["k"]
    n = sc["n"]
    what = f"shuffle of {n} items on a raw output domain of {D}"
    with _RngSeam(D) as seam:
        counts = {}
        # no-rejection scripts: the shortest scripts on which shuffle completes
        for L in range(0, n + 2):
            done = 0
            for script in itertools.product(range(D), repeat=L):
                s = seam.script(script)
                seq = list(range(n))
                res.steps += 1
                try:
                    ok, _ = _call(res, "C19/shuffle-not-uniform", what, lambda: dr.shuffle(seq))
                    if not ok:
                        return
                except ScriptExhausted:
                    continue
                if s.pos != L:
                    continue
                if sorted(seq) != list(range(n)):
                    res.violate("C19/shuffle-not-uniform", f"{what}: result {seq} is not a permutation")
                    return
                counts[tuple(seq)] = counts.get(tuple(seq), 0) + 1
                done += 1
            if done:
                break
        res.log("shuffle", D, n, L, sorted(counts.items()))
        if len(counts) != math.factorial(n) or len(set(counts.values())) > 1:
            res.violate(
                "C19/shuffle-not-uniform",
                f"{what}: over all rejection-free scripts of length {L}, {len(counts)} of {math.factorial(n)} permutations occur with counts {sorted(set(counts.values()))}",
            )
            return
        res.nontrivial = n >= 3


def _prng_shuffle_vary(sc, res, dr):
    """Long lists, where the full script space cannot be enumerated: all raw outputs are held at a
    fixed value except ONE, which runs over the whole reduced domain.  That output decides one uniform
    choice, so among the outputs that are accepted (same number of draws as the baseline) every
    resulting permutation must occur equally often."""
    D = 1 << sc["k"]
    n = sc["n"]
    pos = sc["pos"]
    fill = sc.get("fill", 0)
    what = f"shuffle of {n} items on a raw output domain of {D}, raw output #{pos} varied"
    with _RngSeam(D) as seam:
        def once(x):
            script = [fill] * (4 * n + 16)
            if x is not None:
                script[pos] = x
            sq = seam.script(script)
            seq = list(range(n))
            dr.shuffle(seq)
            return tuple(seq), sq.pos

        try:
            base_perm, base_draws = once(None)
        except ScriptExhausted:
            res.hit("degraded:shuffle_needs_more_raw_outputs_than_scripted")
            return
        except Exception as e:
            res.violate("C19/shuffle-not-uniform", f"{what} raised {type(e).__name__}: {str(e)[:120]}")
            return
        if pos >= base_draws:
            res.log("shuffle_vary", n, pos, "position not consumed")
            return
        counts = {}
        for x in range(D):
            res.steps += 1
            try:
                perm, draws = once(x)
            except ScriptExhausted:
                continue
            if draws != base_draws:
                continue  # rejected output: a re-draw shifted the rest of the script
            if sorted(perm) != list(range(n)):
                res.violate("C19/shuffle-not-uniform", f"{what}: result is not a permutation")
                return
            counts[perm] = counts.get(perm, 0) + 1
        res.log("shuffle_vary", n, pos, sorted(counts.values())[:6], len(counts))
        if len(set(counts.values())) > 1:
            res.violate(
                "C19/shuffle-not-uniform",
                f"{what}: the accepted values of that output lead to {len(counts)} different permutations with unequal multiplicities {sorted(set(counts.values()))}",
            )
            return
        res.nontrivial = len(counts) > 1


def _prng_random(sc, res, dr):
    D = 1 << sc["k"]
    what = f"random() on a raw output domain of {D}"
    with _RngSeam(D) as seam:
        buckets = [0] * D
        for x0 in range(D):
            seam.script([x0])
            res.steps += 1
            try:
                ok, r = _call(res, "C19/random-out-of-range", what, lambda: dr.random())
                if not ok:
                    return
            except ScriptExhausted:
                # random() built from several raw words (e.g. 53 bits from two 32-bit outputs): how it
                # scales a *reduced* word size is not defined, so uniformity cannot be decided by this
                # enumeration; the range is still checked on the real domain with extreme words
                res.hit("degraded:random_uses_several_raw_outputs")
                res.log("random", D, "multi-draw")
                _prng_random_extremes(res, dr)
                return
            if not isinstance(r, float) or not 0.0 <= r < 1.0:
                res.violate("C19/random-out-of-range", f"{what}: raw output {x0} gave {r!r}")
                return
            buckets[int(r * D)] += 1
        res.log("random", D, buckets[:8])
        _prng_random_extremes(res, dr)
        if any(c != 1 for c in buckets):
            res.violate("C19/random-not-uniform", f"{what}: outputs per interval of width 1/{D}: {buckets[:16]}")
            return
        res.nontrivial = True


def _prng_random_extremes(res, dr):
    with _RngSeam(1 << 32) as seam:  # the real word size, whatever domain an enclosing seam has set
        for word in (0, 0xFFFFFFFF, 0x80000000, 1):
            seam.script([word] * 8)
            try:
                r = dr.random()
            except ScriptExhausted:
                res.hit("degraded:random_needs_more_than_8_raw_outputs")
                return
            except Exception as e:
                res.violate("C19/random-out-of-range", f"random() on raw outputs {word:#x} raised {type(e).__name__}: {e}")
                return
            if not isinstance(r, float) or not 0.0 <= r < 1.0:
                res.violate("C19/random-out-of-range", f"random() on raw outputs all equal to {word:#x} gave {r!r}")
                return


def _prng_real_randint(sc, res, dr):
    a, b = sc["a"], sc["b"]
    w = b - a + 1
    D = 1 << 32
    what = f"randint({a}, {b}) on the real 2^32 domain"
    limit = D - D % w
    rng = pyrandom.Random(sc["s"])
    outputs = [0, 1, w - 1, w % D, limit - 1, D - 1, limit % D] + [rng.randrange(D) for _ in range(12)]
    with _RngSeam(None) as seam:
        if dr._XORSHIFT_DOMAIN_SIZE != D:
            raise core.HarnessError("real domain size is not 2^32")
        for x0 in outputs:
            filler = rng.randrange(limit)
            s = seam.script([x0, filler])
            res.steps += 1
            try:
                r = dr.randint(a, b)
            except ScriptExhausted:
                res.violate("C19/no-redraw-after-rejection", f"{what}: outputs [{x0}, {filler}] were both rejected")
                return
            except Exception as e:
                res.violate("C19/randint-out-of-range", f"{what} raised {type(e).__name__}: {e}")
                return
            if type(r) is not int or not a <= r <= b:
                res.violate("C19/randint-out-of-range", f"{what}: raw output {x0} gave {r!r}")
                return
            if s.pos >= 2:
                res.nontrivial = True
                res.hit("probe:rejection_branch_taken")
            # which raw outputs are rejected is the implementation's choice (modulo zone, bucket zone,
            # bit-mask ...); exact uniformity is decided on the enumerated reduced domains, not here
            res.log("real_randint", x0, r, s.pos)
        # a > b is documented to raise ValueError
        seam.script([0, 0])
        try:
            dr.randint(a + 1, a)
            res.violate("C19/randint-out-of-range", f"randint({a + 1}, {a}) did not raise ValueError")
            return
        except ValueError:
            pass
        except Exception as e:
            res.violate("C19/randint-out-of-range", f"randint({a + 1}, {a}) raised {type(e).__name__}")
            return
        # domains wider than 2^32: the pinned code documents ValueError.  The property only says
        # "uniform over exactly [a, b]", so an implementation that serves them is accepted as long as
        # it is uniform: N draws from uniformly random 32-bit words, counted in m equal buckets
        # of [a, b] (m = the odd factor of the width), every bucket within 8 standard deviations.
        for m, shift in ((1, 32), (3, 62), (3, 94), (5, 61), (3, 31)):
            ww = (m << shift) + (1 if m == 1 else 0)
            aa = a - (ww // 2 if (sc["s"] + shift) % 2 else 0)
            bb = aa + ww - 1
            N = 3000
            seam.script([rng.randrange(D) for _ in range(N * 12)])
            m = 3 if m == 1 else m
            counts = [0] * m
            n = 0
            try:
                for _ in range(N):
                    r = dr.randint(aa, bb)
                    if type(r) is not int or not aa <= r <= bb:
                        res.violate("C19/randint-out-of-range", f"randint({aa}, {bb}) on the real domain gave {r!r}")
                        return
                    counts[min(m - 1, (r - aa) * m // ww)] += 1
                    n += 1
            except ScriptExhausted:
                pass
            except ValueError:
                res.hit("probe:wide_domain_rejected_with_valueerror")
                continue
            except Exception as e:
                res.violate("C19/randint-out-of-range", f"randint({aa}, {bb}) raised {type(e).__name__}")
                return
            res.hit("probe:wide_domain_served")
            if n >= 1000:
                sd = (n * (1 / m) * (1 - 1 / m)) ** 0.5
                if any(abs(c - n / m) > 8 * sd for c in counts):
                    res.violate("C19/randint-not-uniform", f"randint(a, a + {m if ww % m == 0 else 1}*2^{shift} - 1) over {n} draws from uniform raw words: bucket counts {counts} (expected {n / m:.0f} +- {sd:.0f} each)")
                    return


def _prng_real_shuffle(sc, res, dr, srandom):
    n = sc["n"]
    with _RngSeam(None):
        srandom.use_deterministic_prng(True, sc["s"])
        seq = list(range(n))
        srandom.shuffle(seq)
        first = list(seq)
        srandom.use_deterministic_prng(True, sc["s"])
        seq2 = list(range(n))
        srandom.shuffle(seq2)
        res.steps += 2
        res.log("real_shuffle", n, first)
        if sorted(first) != list(range(n)):
            res.violate("C19/shuffle-not-uniform", f"shuffle of {n} items returned {first}, not a permutation")
        elif first != seq2:
            res.violate("C19/reseed-not-reproducible", f"shuffle after the same seed {sc['s']} gave {first} then {seq2}")
        if n:
            c = srandom.choice(seq)
            if c not in seq:
                res.violate("C19/choice-not-uniform", f"choice returned {c!r}, not a candidate")
        try:
            srandom.choice([])
            res.violate("C19/choice-not-uniform", "choice([]) did not raise")
        except (ValueError, IndexError):
            pass


def _prng_xorshift(sc, res, dr):
    s = sc["s"]
    with _RngSeam(None):
        n_draws = 40 if s % 8 else 3000  # every eighth scenario follows the stream for a long time
        dr.seed(s)
        one = [dr._rng.next() for _ in range(n_draws)]
        dr.seed(s)
        two = [dr._rng.next() for _ in range(n_draws)]
        dr.seed(s + 1)
        three = [dr._rng.next() for _ in range(n_draws)]
        res.steps += 3 * n_draws
        res.log("xorshift", one[:4])
        if one != two:
            res.violate("C19/reseed-not-reproducible", f"seed({s}) twice gave different streams: {one[:3]} vs {two[:3]}")
        elif any(type(x) is not int or not 0 <= x < 2**32 for x in one):
            res.violate("C19/random-out-of-range", f"raw output outside [0, 2^32): {[x for x in one if not (type(x) is int and 0 <= x < 2**32)][:3]}")
        elif len(set(one)) == 1:
            # (different seeds giving different streams is not demanded by the property; a constant
            # raw stream, however, cannot be uniform under any reading)
            res.violate("C19/random-not-uniform", f"raw stream after seed({s}) is constant: {one[:4]}")
        # seeding through srandom is the same thing
        import cspuz.generator.srandom as srandom

        srandom.use_deterministic_prng(True, s)
        four = [dr._rng.next() for _ in range(n_draws)]
        if four != one:
            res.violate("C19/reseed-not-reproducible", f"use_deterministic_prng(True, {s}) does not reproduce seed({s})")
        r = [srandom.random() for _ in range(20)]
        if any(not 0.0 <= x < 1.0 for x in r):
            res.violate("C19/random-out-of-range", f"random() gave {[x for x in r if not 0.0 <= x < 1.0][:3]}")


def _prng_switch(sc, res, dr, srandom):
    s = sc["s"]
    with _RngSeam(None):
        # switch on: Python's global random must not be touched, the deterministic stream is consumed
        srandom.use_deterministic_prng(True, s)
        pyrandom.seed(s)
        st = pyrandom.getstate()
        vals_on = [srandom.randint(0, 9), srandom.choice([1, 2, 3]), srandom.random()]
        lst = list(range(6))
        srandom.shuffle(lst)
        res.steps += 4
        if pyrandom.getstate() != st:
            res.violate("C19/global-random-touched", "with the deterministic PRNG on, a srandom call changed Python's global random state")
            return
        dr.seed(s)
        expect = [dr.randint(0, 9), dr.choice([1, 2, 3]), dr.random()]
        lst2 = list(range(6))
        dr.shuffle(lst2)
        if vals_on != expect or lst != lst2:
            res.violate("C19/switch-not-honoured", f"with the deterministic PRNG on, srandom gave {vals_on} {lst}, deterministic_random gives {expect} {lst2}")
            return
        # enabling again with the same seed while already enabled must rewind the stream ("same seed, same sequence")
        srandom.use_deterministic_prng(True, s)
        again = [srandom.randint(0, 9), srandom.choice([1, 2, 3]), srandom.random()]
        if again != vals_on:
            res.violate("C19/reseed-not-reproducible", f"use_deterministic_prng(True, {s}) while already enabled did not restart the stream: {vals_on} then {again}")
            return
        if s == 0:
            srandom.use_deterministic_prng(True)  # documented: no seed means seed 0
            dflt = [srandom.randint(0, 9), srandom.choice([1, 2, 3]), srandom.random()]
            if dflt != vals_on:
                res.violate("C19/reseed-not-reproducible", f"use_deterministic_prng(True) (default seed 0) gave {dflt}, seed 0 gives {vals_on}")
                return
        if not srandom.is_use_deterministic_prng():
            res.violate("C19/switch-not-honoured", "is_use_deterministic_prng() is False after enabling")
            return
        # switch off: delegates to Python's random
        srandom.use_deterministic_prng(False)
        pyrandom.seed(s)
        got = [srandom.randint(3, 11), srandom.choice(["a", "b", "c"]), srandom.random()]
        l1 = list(range(7))
        srandom.shuffle(l1)
        pyrandom.seed(s)
        want = [pyrandom.randint(3, 11), pyrandom.choice(["a", "b", "c"]), pyrandom.random()]
        l2 = list(range(7))
        pyrandom.shuffle(l2)
        res.log("switch", got, l1)
        if got != want or l1 != l2:
            res.violate("C19/switch-not-honoured", f"with the deterministic PRNG off, srandom gave {got} {l1}, random gives {want} {l2}")


# ======================================================================================
# (b)/(c) generate_problem
# ======================================================================================


def tagged(v):
    """Canonical JSON-able form of a problem value (tuples tagged)."""
    if isinstance(v, tuple):
        return {"t": [tagged(x) for x in v]}
    if isinstance(v, list):
        return [tagged(x) for x in v]
    return v


def pdigest(v):
    return hashlib.sha256(json.dumps(tagged(v), sort_keys=True, default=repr).encode()).hexdigest()[:16]


def flatten(v, out=None):
    out = [] if out is None else out
    if isinstance(v, (list, tuple)):
        for x in v:
            flatten(x, out)
    else:
        out.append(v)
    return out


def build_pattern(p, G, memo=None):
    """JSON pattern -> objects of the generator package (fresh builders every time; with a memo, leaves
    with equal descriptions are one and the same builder object)."""
    if memo is not None and p[0] in ("array", "seg", "choice"):
        key = json.dumps(p, sort_keys=True)
        if key not in memo:
            memo[key] = build_pattern(p, G)
        else:
            memo["__shared__"] = True
        return memo[key]
    if memo is not None and p[0] in ("list", "tuple"):
        items = [build_pattern(i, G, memo) for i in p[1]]
        return items if p[0] == "list" else tuple(items)
    t = p[0]
    if t == "const":
        v = p[1]
        return copy.deepcopy(v)
    if t == "choice":
        vals = [tuple(v) if isinstance(v, list) else v for v in p[1]]
        d = tuple(p[2]) if isinstance(p[2], list) else p[2]
        return G.Choice(vals, d)
    if t == "array":
        _, h, w, choice, default, opts = p
        dis = opts["disallow_adjacent"]
        if isinstance(dis, list):
            dis = [tuple(o) for o in dis]
        return G.ArrayBuilder2D(
            h,
            w,
            list(choice),
            default,
            disallow_adjacent=dis,
            symmetry=opts["symmetry"],
            initial=copy.deepcopy(opts["initial"]),
            use_move=opts["use_move"],
        )
    if t == "seg":
        _, h, w, mn, mx, ms, xs, allow, init = p
        ib = None if init is None else [[(c[0], c[1]) for c in b] for b in init]
        return G.SegmentationBuilder2D(h, w, min_num_blocks=mn, max_num_blocks=mx, min_block_size=ms, max_block_size=xs, allow_unmet_constraints_first=allow, initial_blocks=ib)
    if t == "list":
        return [build_pattern(i, G) for i in p[1]]
    if t == "tuple":
        return tuple(build_pattern(i, G) for i in p[1])
    raise ValueError(t)


def check_value(p, cur, nxt, path, out):
    """Neighbour-vs-current and global checks of one problem value against its pattern.
    Appends (kind, message) to out.  cur may be None (no locality information)."""
    t = p[0]
    if t == "const":
        want = p[1]
        if tagged(nxt) != tagged(want) and nxt != want:
            out.append(("C19/neighbour-outside-choice-set", f"{path}: constant part of the pattern changed to {nxt!r}"))
        return
    if t == "choice":
        vals = [tuple(v) if isinstance(v, list) else v for v in p[1]]
        if nxt not in vals:
            out.append(("C19/neighbour-outside-choice-set", f"{path}: value {nxt!r} is not in the choice set {vals}"))
        return
    if t == "array":
        _, h, w, choice, default, opts = p
        if not isinstance(nxt, list) or len(nxt) != h or any((not isinstance(r, list)) or len(r) != w for r in nxt):
            out.append(("C19/neighbour-outside-choice-set", f"{path}: value is not a {h}x{w} grid"))
            return
        for y in range(h):
            for x in range(w):
                v = nxt[y][x]
                if (cur is None or cur[y][x] != v) and v not in choice:
                    out.append(("C19/neighbour-outside-choice-set", f"{path}: cell ({y},{x}) became {v!r}, not in the choice set {choice}"))
                    return
        if opts["symmetry"]:
            for y in range(h):
                for x in range(w):
                    if (nxt[y][x] != default) != (nxt[h - 1 - y][w - 1 - x] != default):
                        out.append(("C19/symmetry-broken", f"{path}: cell ({y},{x}) is {nxt[y][x]!r} but its mirror ({h-1-y},{w-1-x}) is {nxt[h-1-y][w-1-x]!r} (default {default!r})"))
                        return
        offs = _offsets(opts["disallow_adjacent"])
        if offs and not opts["use_move"] and _touching(opts["initial"], default, offs, h, w):
            # the start grid itself holds touching clues (legal input): the grid as a whole cannot be required to
            # be free of them, but every update here is value-setting and must not write a non-default value
            # next to a non-default cell
            if cur is not None:
                for y in range(h):
                    for x in range(w):
                        if nxt[y][x] == default or nxt[y][x] == cur[y][x]:
                            continue
                        for dy, dx in offs:
                            yy, xx = y + dy, x + dx
                            if 0 <= yy < h and 0 <= xx < w and nxt[yy][xx] != default:
                                out.append(("C19/adjacency-broken", f"{path}: the update wrote {nxt[y][x]!r} into ({y},{x}) next to the non-default cell ({yy},{xx}) (offset ({dy},{dx}))"))
                                return
        elif offs and not opts["use_move"]:
            for y in range(h):
                for x in range(w):
                    if nxt[y][x] == default:
                        continue
                    for dy, dx in offs:
                        yy, xx = y + dy, x + dx
                        if 0 <= yy < h and 0 <= xx < w and nxt[yy][xx] != default:
                            out.append(("C19/adjacency-broken", f"{path}: non-default cells ({y},{x}) and ({yy},{xx}) are adjacent by offset ({dy},{dx})"))
                            return
        return
    if t == "seg":
        # a segmentation builder has no choice set; what a neighbour may be is what C18 states: a
        # partition of the board into orthogonally connected blocks
        _, h, w = p[0], p[1], p[2]
        region = None
        if p[8] is not None:
            region = {(c[0], c[1]) for b in p[8] for c in b}
            if len(region) == h * w:
                region = None
        if region is None:
            v = c18_segment.check_partition(nxt, h, w)
            if v is not None:
                out.append(("C19/neighbour-outside-choice-set", f"{path}: segmentation value is not a valid partition of the {h}x{w} board: {v[1]}"))
            return
        # board with holes: disjoint non-empty connected blocks inside the board that still hold every cell of the region
        bad = None
        seen = set()
        if not isinstance(nxt, list):
            bad = f"value is a {type(nxt).__name__}, not a list of blocks"
        else:
            for bi, b in enumerate(nxt):
                if not isinstance(b, list) or not b:
                    bad = f"block #{bi} is empty or not a list"
                    break
                cells = []
                for c in b:
                    if not (isinstance(c, (tuple, list)) and len(c) == 2) or not (0 <= c[0] < h and 0 <= c[1] < w):
                        bad = f"block #{bi} holds {c!r}, not a cell of the board"
                        break
                    c = (c[0], c[1])
                    if c in seen:
                        bad = f"cell {c} appears twice"
                        break
                    seen.add(c)
                    cells.append(c)
                if bad:
                    break
                if not c18_segment._connected(cells):
                    bad = f"block #{bi} {sorted(cells)} is not orthogonally connected"
                    break
            if bad is None and not region <= seen:
                bad = f"cells {sorted(region - seen)[:4]} of the region are in no block"
        if bad is not None:
            out.append(("C19/neighbour-outside-choice-set", f"{path}: segmentation value is not a valid segmentation of the {h}x{w} board with holes: {bad}"))
        return
    if t in ("list", "tuple"):
        want_type = list if t == "list" else tuple
        if type(nxt) is not want_type or len(nxt) != len(p[1]):
            out.append(("C19/neighbour-outside-choice-set", f"{path}: expected a {t} of {len(p[1])} items, got {type(nxt).__name__}"))
            return
        for i, sub in enumerate(p[1]):
            check_value(sub, None if cur is None else cur[i], nxt[i], f"{path}[{i}]", out)


def _truthy(style, value):
    """yes / no spelled as a bool, as 1 / 0, or as a non-empty / empty list (callers test truthiness)."""
    if style == "int":
        return 1 if value else 0
    if style == "obj":
        return ["yes"] if value else []
    return bool(value)


def _as(kind, result):
    """The solver callback's result in the container the scenario asks for (`is_sat, *answer = ...`
    unpacks any iterable)."""
    if kind == "list":
        return list(result)
    if kind == "iter":
        return iter(result)
    return result


class _Trace:
    def __init__(self):
        self.seq = []  # digests of problems handed to the solver, in order
        self.result = None
        self.stopped = False
        self.calls = []  # dicts per solver call
        self.exception = None
        self.gen_calls = 0


class _Plain:
    def __init__(self, sol):
        self.sol = sol


def _make_answer(shape, decided, values, cspuz, E, A):
    """Answer objects in the shapes default_score_calculator / default_uniqueness_checker document."""
    k = len(decided)

    def var(i):
        if i % 2 == 0:
            v = E.BoolVar(i)
            v.sol = (values[i] % 2 == 0) if decided[i] else None
        else:
            v = E.IntVar(i, 0, 9)
            v.sol = (values[i] % 10) if decided[i] else None
        return v

    if shape == "vars":
        return tuple(var(i) for i in range(k))
    if shape == "plain":
        return ([_Plain(values[i] if decided[i] else None) for i in range(k)],)
    if shape == "array2d":
        vs = []
        for i in range(k):
            v = E.BoolVar(i)
            v.sol = (values[i] % 2 == 0) if decided[i] else None
            vs.append(v)
        return (A.BoolArray2D(vs, (2, k // 2) if k % 2 == 0 else (1, k)),)
    if shape == "frame":
        s = cspuz.Solver()
        fr = cspuz.BoolGridFrame(s, 1, 1)
        edges = list(fr)
        for i, e in enumerate(edges):
            e.sol = (values[i % k] % 2 == 0) if decided[i % k] else None
        return (fr,)
    if shape in ("list_first", "deep"):
        vs = []
        for i in range(k):
            v = E.BoolVar(i) if i % 3 else E.IntVar(i, 0, 9)
            if decided[i]:
                v.sol = (values[i] % 2 == 0) if i % 3 else values[i] % 3  # integer 0 is a decided value
            vs.append(v)
        third = max(1, k // 3)
        if shape == "list_first":
            # a list FIRST, then sibling answers: every sibling must still be inspected
            return ([vs[0]] + [A.BoolArray1D([v for v in vs[1:third + 1] if isinstance(v, E.BoolVar)])], *vs[third + 1 :])
        return ([[vs[0], [v for v in vs[1:third + 1]]], vs[third + 1] if k > third + 1 else vs[0]], [], *vs[third + 2 :])
    if shape == "nested":
        vs = []
        for i in range(k):
            v = E.BoolVar(i)
            v.sol = (values[i] % 2 == 0) if decided[i] else None
            vs.append(v)
        half = max(1, k // 2)
        return (A.BoolArray1D(vs[:half]), [v for v in vs[half:]])
    raise ValueError(shape)


def _answer_all_decided(shape, decided):
    if shape == "frame":
        return all(decided[i % len(decided)] for i in range(4))
    return all(decided)


def ref_all_decided(answer):
    """Reference reading of 'the uniqueness test accepts': every variable reachable through the
    documented answer shapes (variables, arrays, grid frames, nested lists) has a decided value."""
    for a in answer:
        if isinstance(a, list):
            if not ref_all_decided(a):
                return False
        elif hasattr(a, "is_variable") and a.is_variable():
            if a.sol is None:
                return False
        elif isinstance(a, _Plain):
            if a.sol is None:
                return False
        else:
            for cell in a:  # Array1D / Array2D / BoolGridFrame
                if cell.sol is None:
                    return False
    return True


def _answer_score(shape, decided):
    if shape == "frame":
        return sum(1 for i in range(4) if decided[i % len(decided)])
    if shape == "plain":
        return 0
    return sum(1 for d in decided if d)


class _InjectedFailure(Exception):
    """The solver callback fails (stands for a backend timeout / crash in the user's solver function)."""


def exec_gen(sc, variant, res, check=True, retain=True, shared=None, fail_at=None, restore=True, rejected_first=None, use_pair=False):
    """One execution of generate_problem under interference `variant`; returns a _Trace.

    retain=False: the harness keeps no reference to any problem object it is shown (only value
    snapshots), so earlier problems are garbage collected as in plain use and their addresses get
    reused - behaviour that depends on object identity or lifetime differs from the retaining
    execution."""
    cspuz = core.import_cspuz()
    import cspuz.generator as G
    import cspuz.generator.srandom as srandom
    import cspuz.generator.deterministic_random as dr
    from cspuz import expr as E
    from cspuz import array as A

    tr = _Trace()
    pat_json = sc["pattern"]
    seen = []  # (object, snapshot, where)
    state = {"current": None, "neighbours": None, "gen_calls": 0, "n_cb": 0}
    viol = []
    initial_flat = None
    solver_cfg = sc["solver"]
    interfere = sc["interfere"][variant]
    consume_n = sc["consume_n"][variant]

    seam = c18_segment._Seam(res)  # counts every draw; a run-away loop in the code under test ends the run

    seen_ids = set()  # the objects in `seen` are kept alive, so their ids are unique

    def note(obj, where):
        if not retain:
            return
        if id(obj) in seen_ids:
            return
        seen_ids.add(id(obj))
        seen.append((obj, copy.deepcopy(obj), where))

    def purity(where):
        if not check:
            return
        for o, snap, first in seen:
            if o != snap:
                viol.append(("C19/problem-mutated", f"a problem first seen at {first} was modified by the time of {where}: {snap!r} -> {o!r}"))
                seen[:] = [(a, copy.deepcopy(a), c) for a, _, c in seen]
                return

    def meddle():
        state["n_cb"] += 1
        if state["n_cb"] > CALLBACK_CAP:
            # a generation that keeps rejecting (e.g. a pretest that never passes with max_steps unset) is cut
            # short like one that exhausts max_calls: both executions stop at the same point
            raise _StopRun()
        if sc["det_seed"] is None:
            return  # with Python's random in use, touching it would legitimately change the run
        if interfere == "consume":
            seam.paused = True
            try:
                for _ in range(consume_n):
                    pyrandom.random()
            finally:
                seam.paused = False
            res.hit("interfere:consume")
        elif interfere == "reseed":
            pyrandom.seed(Hi("reseed", variant, state["n_cb"]))
            res.hit("interfere:reseed")

    real_ctx = {}

    def fake_solver(problem):
        if fail_at is not None and len(tr.seq) >= fail_at:
            res.hit("fault:solver_callback_raised_mid_generation")
            raise _InjectedFailure("injected: the solver callback failed")
        if len(tr.seq) >= sc["max_calls"]:
            raise _StopRun()
        note(problem, f"solver call {len(tr.seq)}")
        d = pdigest(problem)
        tr.seq.append(d)
        res.steps += 1
        res.states.add(d)
        rec = {"digest": d, "problem": problem if retain else copy.deepcopy(problem), "n": len(tr.seq) - 1}
        tr.calls.append(rec)
        if check:
            out = []
            cur = state["current"] if state["neighbours"] is not None else None
            if rec["n"] == 0 and sc["solve_initial"]:
                cur = None
            check_value(pat_json, cur, problem, "problem", out)
            viol.extend(out)
        meddle()
        if solver_cfg["type"] == "real":
            ans = _real_puzzle(problem, solver_cfg["backends"][variant], res, real_ctx, cspuz, E)
            rec["is_sat"] = ans[0]
            rec["answer"] = ans[1:]
            rec["unique_expected"] = bool(ans[0]) and all(v.sol is not None for v in ans[1])
            purity(f"solver call {rec['n']}")
            return ans
        sub = solver_cfg["subseed"]
        is_sat = H(sub, d, "sat") < solver_cfg["p_sat"]
        rec["is_sat"] = is_sat
        if not is_sat:
            purity(f"solver call {rec['n']}")
            return _as(solver_cfg.get("ret"), (False,) + _make_answer(solver_cfg["shape"], [False] * solver_cfg["cells"], [0] * solver_cfg["cells"], cspuz, E, A))
        flat = flatten(problem)
        nd = sum(1 for i, v in enumerate(flat) if i >= len(initial_flat) or initial_flat[i] != v) + abs(len(flat) - len(initial_flat))
        p_dec = min(0.97, solver_cfg["base"] + solver_cfg["slope"] * nd)
        k = solver_cfg["cells"]
        decided = [H(sub, d, "dec", j) < p_dec for j in range(k)]
        values = [Hi(sub, d, "val", j) % 100 for j in range(k)]
        ans = _make_answer(solver_cfg["shape"], decided, values, cspuz, E, A)
        rec["answer"] = ans
        rec["decided"] = decided
        rec["unique_expected"] = ref_all_decided(ans)
        purity(f"solver call {rec['n']}")
        return _as(solver_cfg.get("ret"), (True,) + ans)

    def find_call(answer):
        for rec in reversed(tr.calls):
            a = rec.get("answer")
            if a is not None and len(a) == len(answer) and all(x is y for x, y in zip(a, answer)):
                return rec
        return None

    def fake_score(*answer):
        meddle()
        rec = find_call(answer)
        purity("score callback")
        if rec is None:
            viol.append(("C19/returned-problem-not-accepted", "score() was called with objects the solver callback never returned"))
            return 0
        return Hi(solver_cfg.get("subseed", 0), rec["digest"], "score") % 12

    def fake_uniq(*answer):
        meddle()
        rec = find_call(answer)
        purity("uniqueness callback")
        if rec is None:
            viol.append(("C19/returned-problem-not-accepted", "uniqueness() was called with objects the solver callback never returned"))
            return False
        u = rec["unique_expected"] and H(solver_cfg.get("subseed", 0), rec["digest"], "uq") < 0.9
        rec["unique_said"] = u
        return _truthy(sc.get("truthy"), u)

    def fake_pretest(problem):
        note(problem, "pretest")
        meddle()
        purity("pretest callback")
        return _truthy(sc.get("truthy"), H(solver_cfg.get("subseed", 0), pdigest(problem), "pre") < sc["pretest"])

    def fake_penalty(problem):
        note(problem, "clue_penalty")
        meddle()
        purity("clue_penalty callback")
        return sc["clue_penalty"] * (Hi(solver_cfg.get("subseed", 0), pdigest(problem), "pen") % 3)

    saved = (core.snapshot_module_state(srandom), core.snapshot_module_state(dr), pyrandom.getstate())
    try:
        seam.install()
        pyrandom.seed(sc["py_seed"] if variant == 0 else sc["py_seed2"])
        if sc["det_seed"] is not None:
            if variant == 1:
                # the second execution starts like the N-th bench in a loop: the deterministic PRNG is
                # already enabled and its stream has advanced; enabling it again with the seed must rewind
                srandom.use_deterministic_prng(True, 12345)
                for _ in range(7):
                    srandom.random()
                res.hit("perturb:prng_already_enabled_and_advanced_before_reseed")
            srandom.use_deterministic_prng(True, sc["det_seed"])
        else:
            srandom.use_deterministic_prng(False)
        kwargs = dict(
            score=fake_score if sc["score"] else None,
            uniqueness=fake_uniq if sc["uniqueness"] else None,
            pretest=fake_pretest if sc["pretest"] else None,
            clue_penalty=fake_penalty if sc["clue_penalty"] else None,
            initial_temperature=sc["temperature"],
            temperature_decay=sc["decay"],
            max_steps=sc["max_steps"],
            solve_initial_problem=sc["solve_initial"],
            verbose=bool(sc.get("verbose")),
        )
        import contextlib
        import io

        quiet = contextlib.redirect_stderr(io.StringIO()) if sc.get("verbose") else contextlib.nullcontext()
        try:
          with quiet:
            if shared is not None and "pattern" in shared:
                # the very same pattern / builder objects as in the first execution: a run must not
                # leave anything behind in them that changes the next run with the same seed
                pattern = shared["pattern"]
                res.hit("perturb:second_execution_reuses_the_pattern_objects")
            else:
                memo = {} if sc.get("share_equal_leaves") else None
                pattern = build_pattern(pat_json, G, memo)
                if memo and memo.get("__shared__"):
                    res.hit("perturb:one_builder_object_at_two_positions")
                if shared is not None:
                    shared["pattern"] = pattern
            if rejected_first is not None:
                # a call that generate_problem rejects because of its arguments, made after seeding:
                # the ordinary call that follows must behave as if it had never happened
                def never(problem):
                    raise _StopRun()

                try:
                    if rejected_first == "both":
                        G.generate_problem(never, initial_problem=[0], neighbor_generator=lambda q: iter(()), builder_pattern=pattern)
                    else:
                        G.generate_problem(never)
                    tr.rejected = "returned"
                except _StopRun:
                    tr.rejected = "ran"
                except (ValueError, TypeError):
                    tr.rejected = "rejected"
                    res.hit("fault:rejected_generate_problem_call_first")
                except Exception:
                    tr.rejected = "other"
            if sc["use_builder_pattern"]:
                # generate_problem builds the neighbour generator itself; the initial problem is
                # recomputed here only for the fake solver's clue counter (same PRNG state restored)
                st = (core.snapshot_module_state(srandom), core.snapshot_module_state(dr), pyrandom.getstate())
                init0, _ = G.build_neighbor_generator(build_pattern(pat_json, G, {} if sc.get("share_equal_leaves") else None))
                core.restore_module_state(srandom, st[0])
                core.restore_module_state(dr, st[1])
                pyrandom.setstate(st[2])
                initial_flat = flatten(init0)
                result = G.generate_problem(fake_solver, builder_pattern=pattern, **kwargs)
            else:
                if use_pair and shared is not None and "pair" in shared:
                    # the caller kept (initial problem, neighbour generator) from an earlier walk and walks again
                    initial, gen = shared["pair"]
                    res.hit("perturb:initial_and_generator_pair_reused_across_walks")
                else:
                    initial, gen = G.build_neighbor_generator(pattern)
                    if shared is not None:
                        shared["pair"] = (initial, gen)
                initial_flat = flatten(initial)
                note(initial, "initial problem")
                if check:
                    out = []
                    check_value(pat_json, None, initial, "initial", out)
                    if out:
                        raise core.HarnessError(f"generated initial problem is outside the preconditions: {out[0]}")

                def wrapped(problem):
                    state["gen_calls"] += 1
                    state["current"] = problem
                    state["neighbours"] = True
                    note(problem, f"generator call {state['gen_calls']}")
                    for nb in gen(problem):
                        note(nb, f"neighbour of generator call {state['gen_calls']}")
                        yield nb
                    purity(f"generator call {state['gen_calls']}")

                result = G.generate_problem(fake_solver, initial_problem=initial, neighbor_generator=wrapped, **kwargs)
            tr.result = ("value", pdigest(result)) if result is not None else ("none",)
            tr.result_obj = result
        except _StopRun:
            tr.stopped = True
            tr.result = ("stopped",)
            tr.result_obj = None
        except _InjectedFailure:
            tr.result = ("failed",)
            tr.result_obj = None
        except core.HarnessError:
            raise
        except Exception as e:
            tr.exception = f"{type(e).__name__}: {str(e)[:160]}"
            tr.result = ("exception", type(e).__name__)
            tr.result_obj = None
        tr.gen_calls = state["gen_calls"]
        purity("end of run")
    finally:
        seam.restore()
        if restore:
            core.restore_module_state(srandom, saved[0])
            core.restore_module_state(dr, saved[1])
            pyrandom.setstate(saved[2])
    if check:
        # returned problem must be one the solver saw, reported sat, and uniqueness accepted
        if tr.result[0] == "value":
            rec = None
            for c in tr.calls:
                if c["problem"] is tr.result_obj:
                    rec = c
            if rec is None:
                rec = next((c for c in reversed(tr.calls) if c["problem"] == tr.result_obj), None)
                if rec is None:
                    viol.append(("C19/returned-problem-not-accepted", f"the returned problem {tr.result_obj!r} was never handed to the solver"))
            if rec is not None:
                same = [c for c in tr.calls if c["problem"] == tr.result_obj]
                if not any(c.get("is_sat") for c in same):
                    viol.append(("C19/returned-problem-not-accepted", f"the returned problem {tr.result_obj!r} was reported unsatisfiable by the solver"))
                else:
                    if sc["uniqueness"]:
                        ok = any(c.get("unique_said") for c in same)
                    else:
                        ok = any(c.get("is_sat") and c.get("unique_expected") for c in same)
                    if not ok:
                        viol.append(("C19/returned-problem-not-accepted", f"the returned problem {tr.result_obj!r} was not accepted by the uniqueness test"))
        # an exception out of generate_problem means nothing was returned: C19 says nothing about
        # it (e.g. SegmentationBuilder2D.initial() can walk into a dead end and raise IndexError),
        # so it is recorded as inconclusive, never as a violation.  If only one of the two
        # executions raises, the candidate sequences differ and that *is* reported.
    tr.violations = viol
    return tr


def _real_puzzle(problem, backend_name, res, real_ctx, cspuz, E):
    """A real tiny puzzle: clue c >= 0 at a cell = exactly c orthogonal neighbours are true."""
    h, w = len(problem), len(problem[0])
    s = cspuz.Solver()
    cells = s.bool_array((h, w))
    s.add_answer_key(cells)
    for y in range(h):
        for x in range(w):
            c = problem[y][x]
            if c >= 0:
                s.ensure(cspuz.count_true(cells.four_neighbors(y, x)) == c)
                s.ensure(~cells[y, x])
    if backend_name == "z3":
        be = "z3"
    else:
        ctx = real_ctx.get(backend_name)
        if ctx is None:
            sim_ctx = peers.SimContext(res, policy={"name": backend_name, "seed": 1})
            ctx = (sim_ctx, peers.make_sim_backend(sim_ctx, E))
            real_ctx[backend_name] = ctx
        ctx[0].reset_calls()
        be = ctx[1]
    res.hit("real_puzzle_backend:" + backend_name)
    with warnings.catch_warnings():
        warnings.simplefilter("ignore")
        ok = s.solve(backend=be)
    return ok, cells


def _run_gen(sc, res, variants=None):
    det = sc["det_seed"] is not None
    res.hit("gen:" + ("deterministic_prng" if det else "python_random"))
    res.hit("solver:" + sc["solver"]["type"])
    # the event log of a run must not depend on how chatty the stubs are: mute backend logs
    n_events = len(res.events)
    shared = {} if sc.get("reuse_pattern") else None
    a = exec_gen(sc, 0, res, shared=shared)
    del res.events[n_events:]
    res.log("A", a.seq, a.result, a.gen_calls)
    for k, m in a.violations[:3]:
        res.violate(k, m + " [execution A]")
    acc = sum(1 for c in a.calls if c.get("is_sat"))
    if acc >= 1 and any(not c.get("is_sat") for c in a.calls) or (a.gen_calls >= 2 and len(a.calls) >= 3):
        res.nontrivial = True
    res.hit("result:" + a.result[0])
    if a.exception is not None:
        res.inconclusive = True
        res.hit("inconclusive:exception:" + a.exception.split(":")[0])
    for leaf in _leaves(sc["pattern"]):
        res.hit("builder:" + leaf[0])
        if leaf[0] == "array":
            o = leaf[5]
            for key in ("symmetry", "use_move"):
                if o[key]:
                    res.hit("array_option:" + key)
            if o["disallow_adjacent"]:
                res.hit("array_option:disallow_adjacent")
            if o["initial"] is not None:
                res.hit("array_option:initial")
    if not det:
        return
    n_events = len(res.events)
    ff = sc.get("failure_first")
    outer = None
    try:
        if ff is not None and ff["kind"] == "solver_raises":
            # a generation that fails half-way, in this very process (module state is not put back)
            import cspuz.generator.srandom as srandom
            import cspuz.generator.deterministic_random as dr

            outer = (srandom, dr, core.snapshot_module_state(srandom), core.snapshot_module_state(dr), pyrandom.getstate())
            exec_gen(sc, 1, res, check=False, retain=False, shared=shared, fail_at=ff["at"], restore=False)
        b = exec_gen(sc, 1, res, retain=False, shared=shared, rejected_first=ff["form"] if ff is not None and ff["kind"] == "rejected_call" else None)
    finally:
        if outer is not None:
            core.restore_module_state(outer[0], outer[2])
            core.restore_module_state(outer[1], outer[3])
            pyrandom.setstate(outer[4])
    res.hit("perturb:second_execution_retains_no_problem_objects")
    del res.events[n_events:]
    if getattr(b, "rejected", None) in ("returned", "ran", "other"):
        # the call was not rejected (it ran a generation of its own): the PRNG has legitimately advanced
        res.inconclusive = True
        res.hit("inconclusive:rejected_call_was_not_rejected")
        return
    res.log("B", b.seq, b.result, b.gen_calls)
    for k, m in b.violations[:3]:
        res.violate(k, m + " [execution B]")
    if "DrawBudgetExceeded" in (a.exception or "") or "DrawBudgetExceeded" in (b.exception or ""):
        res.inconclusive = True
        res.hit("inconclusive:draw_budget")
        return
    if sc.get("share_pair") and shared is not None and "pair" in shared:
        # two more walks with the pair kept from execution A (no builder is consulted for a start value again,
        # so they are compared with each other, not with A)
        n_events = len(res.events)
        c = exec_gen(sc, 1, res, retain=False, shared=shared, use_pair=True)
        d = exec_gen(sc, 0, res, retain=False, shared=shared, use_pair=True)
        del res.events[n_events:]
        res.log("C", c.seq, c.result, "D", d.seq, d.result)
        for k, m in (c.violations + d.violations)[:3]:
            res.violate(k, m + " [walks with the kept pair]")
        if "DrawBudgetExceeded" in (c.exception or "") or "DrawBudgetExceeded" in (d.exception or ""):
            res.inconclusive = True
            res.hit("inconclusive:draw_budget")
        elif c.seq != d.seq or c.result != d.result:
            i = next((i for i, (x, y) in enumerate(zip(c.seq, d.seq)) if x != y), min(len(c.seq), len(d.seq)))
            res.violate(
                "C19/candidate-sequence-differs",
                f"same deterministic seed {sc['det_seed']}, the same (initial problem, neighbour generator) pair walked twice ({_interf(sc, 1)} vs {_interf(sc, 0)}): candidate #{i} differs ({len(c.seq)} vs {len(d.seq)} candidates; results {c.result} vs {d.result})",
            )
    if a.seq != b.seq:
        i = next((i for i, (x, y) in enumerate(zip(a.seq, b.seq)) if x != y), min(len(a.seq), len(b.seq)))
        pa = a.calls[i]["problem"] if i < len(a.calls) else None
        pb = b.calls[i]["problem"] if i < len(b.calls) else None
        res.violate(
            "C19/candidate-sequence-differs",
            f"same deterministic seed {sc['det_seed']}, different interference ({_interf(sc, 0)} vs {_interf(sc, 1)}): candidate #{i} is {pa!r} in one execution and {pb!r} in the other ({len(a.seq)} vs {len(b.seq)} candidates)",
        )
    elif a.result != b.result:
        res.violate("C19/result-differs", f"same deterministic seed and same candidates but results {a.result} vs {b.result} ({_interf(sc, 0)} vs {_interf(sc, 1)})")


def _interf(sc, v):
    s = f"global random seed {sc['py_seed'] if v == 0 else sc['py_seed2']}, callbacks {sc['interfere'][v]}"
    if sc["solver"]["type"] == "real":
        s += f", backend {sc['solver']['backends'][v]}"
    return s


def _leaves(p):
    if p[0] in ("list", "tuple"):
        for i in p[1]:
            yield from _leaves(i)
    else:
        yield p


# --------------------------------------------------------------------------------------
# hash-seed independence (fresh interpreter)
# --------------------------------------------------------------------------------------


def seq_digest(sc):
    res = RunResult()
    tr = exec_gen(sc, 0, res, check=False, retain=False)
    return core.digest([tr.seq, tr.result])


_FRESH_CACHE = {}


def fresh_seq(inner, hashseed):
    """Candidate-sequence digest of `inner` computed by a fresh interpreter (thread safe)."""
    env = dict(os.environ)
    env["PYTHONHASHSEED"] = str(hashseed)
    env["VERIF_REPO"] = core.REPO
    p = subprocess.run(
        [sys.executable, os.path.join(core.VERIF_DIR, "sim", "cli.py"), "selftest", "c19seq"],
        input=json.dumps(inner).encode(),
        env=env,
        stdout=subprocess.PIPE,
        stderr=subprocess.PIPE,
        timeout=600,
    )
    if p.returncode != 0:
        raise core.HarnessError("fresh interpreter failed: " + p.stderr.decode()[-800:])
    return p.stdout.decode().strip().split("\n")[-1]


def _run_hashseed(sc, res):
    inner = sc["inner"]
    here = seq_digest(inner)
    key = (core.digest(inner), sc["hashseed"])
    there = _FRESH_CACHE.pop(key, None) or fresh_seq(inner, sc["hashseed"])
    key2 = (core.digest(inner), sc["hashseed"] + 7919)
    there2 = _FRESH_CACHE.pop(key2, None) or fresh_seq(inner, sc["hashseed"] + 7919)
    if there2 != there:
        res.log("hashseed", sc["hashseed"] + 7919, there, there2)
        res.violate(
            "C19/hashseed-dependent",
            f"candidate sequences under PYTHONHASHSEED={sc['hashseed']} and {sc['hashseed'] + 7919} (two fresh interpreters) differ",
        )
    res.steps += 1
    res.log("hashseed", sc["hashseed"], here, there)
    res.hit("fresh_interpreter_replays")
    res.nontrivial = True
    if here != there:
        res.violate("C19/hashseed-dependent", f"candidate sequence under PYTHONHASHSEED={sc['hashseed']} in a fresh interpreter differs from the one in this process")


# ======================================================================================
# pre-check: exhaustive reduced-domain enumeration + hash-seed sample
# ======================================================================================


def _has_str_values(p):
    for leaf in _leaves(p):
        if leaf[0] == "array" and any(isinstance(v, str) or v is None for v in leaf[3]):
            return True
        if leaf[0] == "choice" and any(isinstance(v, str) for v in leaf[1]):
            return True
    return False


def prng_scenarios(tier):
    ks = [3, 4, 5, 6] if tier == "quick" else [3, 4, 5, 6, 7, 8, 9, 10]
    out = []
    for k in ks:
        D = 1 << k
        widths = sorted(set(list(range(1, min(D, 13) + 1)) + [D - 1, D, D // 2, D // 2 + 1, (D * 2) // 3]))
        for w in widths:
            if w < 1 or w > D:
                continue
            for a in (0, 3, -4):
                out.append({"prop": ID, "kind": "prng", "test": "randint", "k": k, "a": a, "b": a + w - 1})
        for n in sorted(set([1, 2, 3, 5, 6, 7, D])):
            if n <= D:
                out.append({"prop": ID, "kind": "prng", "test": "choice", "k": k, "n": n})
        out.append({"prop": ID, "kind": "prng", "test": "random", "k": k})
    for k, n in ((3, 0), (3, 1), (3, 2), (3, 3), (3, 4), (4, 3), (4, 4), (2, 3), (2, 4)):
        out.append({"prop": ID, "kind": "prng", "test": "shuffle", "k": k, "n": n})
    if tier != "quick":
        out.append({"prop": ID, "kind": "prng", "test": "shuffle", "k": 3, "n": 5})
    # long lists: one raw output varied at a time
    for n, positions in ((1025, (0, 1, 2, 3)), (300, (0, 5)), (2049, (1,))) if tier == "quick" else ((1025, tuple(range(12))), (300, (0, 5, 50)), (2049, (0, 1, 2, 7)), (1500, (0, 3))):
        for pos in positions:
            out.append({"prop": ID, "kind": "prng", "test": "shuffle_vary", "k": 11 if n <= 2048 else 12, "n": n, "pos": pos, "fill": 0})
    return out


def pre_check(tier, master):
    import concurrent.futures

    violations = []
    evaluations = 0
    fired = {}
    scs = prng_scenarios(tier)
    for i, sc in enumerate(scs):
        sc = dict(sc, seed=0, index=-1 - i, reject_first=(i % 2 == 1))
        r = run(sc)
        evaluations += 1
        for k, v in r.counters.items():
            fired[k] = fired.get(k, 0) + v
        if r.violations:
            violations.append({"index": sc["index"], "seed": 0, "scenario": sc, "violations": r.violations})
    # hash-seed sample: gen scenarios re-executed in fresh interpreters
    n_hs = 96 if tier == "quick" else 600
    hs = []
    i = 0
    while len(hs) < n_hs and i < 200 * n_hs:
        rs = core.run_seed(master, ID + ":hashseed", i)
        inner = generate(pyrandom.Random(rs), tier, i)
        i += 1
        if inner["kind"] != "gen" or inner["det_seed"] is None or inner["solver"]["type"] == "real":
            continue
        # hash order can only matter where str / None values occur (ints and tuples of ints hash
        # the same in every interpreter): three quarters of the sample are such scenarios
        if len(hs) % 4 != 3 and not _has_str_values(inner["pattern"]):
            continue
        if len(hs) % 4 in (0, 1) and not any(l[0] == "array" and l[5]["symmetry"] for l in _leaves(inner["pattern"])):
            continue
        hs.append({"prop": ID, "kind": "hashseed", "inner": inner, "hashseed": 1 + (rs % 4000), "seed": rs, "index": -1000 - i})
    # the fresh interpreters run in parallel; everything that touches this process's global
    # PRNG state runs sequentially afterwards
    jobs = [(h["inner"], h["hashseed"]) for h in hs] + [(h["inner"], h["hashseed"] + 7919) for h in hs]
    with concurrent.futures.ThreadPoolExecutor(max_workers=16) as ex:
        theres = list(ex.map(lambda j: fresh_seq(j[0], j[1]), jobs))
    for (inner_j, hs_j), t in zip(jobs, theres):
        _FRESH_CACHE[(core.digest(inner_j), hs_j)] = t
    results = [run(h) for h in hs]
    for sc, r in zip(hs, results):
        evaluations += 1
        if r.violations:
            violations.append({"index": sc["index"], "seed": sc["seed"], "scenario": sc, "violations": r.violations})
    return {
        "violations": violations,
        "evaluations": evaluations,
        "coverage": {
            "reduced_domain_prng_scenarios_enumerated_exhaustively": len(scs),
            "fresh_interpreter_hashseed_replays": len(hs),
            "probes": fired,
        },
    }


# ======================================================================================
# shrinking
# ======================================================================================


def _shrink_pattern(p):
    t = p[0]
    if t in ("list", "tuple"):
        items = p[1]
        for i in items:
            if _has_builder(i):
                yield i
        for k in range(len(items)):
            rest = items[:k] + items[k + 1 :]
            if rest and any(_has_builder(i) for i in rest):
                yield [t, rest]
        for k, it in enumerate(items):
            for s in _shrink_pattern(it):
                yield [t, items[:k] + [s] + items[k + 1 :]]
    elif t == "array":
        _, h, w, choice, default, opts = p
        if opts["initial"] is not None:
            yield ["array", h, w, choice, default, dict(opts, initial=None)]
        for key in ("symmetry", "use_move"):
            if opts[key]:
                yield ["array", h, w, choice, default, dict(opts, **{key: False})]
        if opts["disallow_adjacent"] not in (False,):
            yield ["array", h, w, choice, default, dict(opts, disallow_adjacent=False)]
            if opts["disallow_adjacent"] is not True:
                yield ["array", h, w, choice, default, dict(opts, disallow_adjacent=True)]
        if opts["initial"] is None:
            if h > 1:
                yield ["array", h - 1, w, choice, default, opts]
            if w > 1:
                yield ["array", h, w - 1, choice, default, opts]
        if len(choice) > 2:
            for c in choice:
                if c != default:
                    smaller = [x for x in choice if x != c]
                    if opts["initial"] is None or all(v != c for row in opts["initial"] for v in row):
                        yield ["array", h, w, smaller, default, opts]
    elif t == "seg":
        _, h, w, mn, mx, ms, xs, allow, init = p
        if init is not None:
            yield ["seg", h, w, mn, mx, ms, xs, allow, None]
        for idx in (3, 4, 5, 6):
            if p[idx] is not None:
                q = list(p)
                q[idx] = None
                yield q
        if init is None:
            if h > 1:
                yield ["seg", h - 1, w, mn, mx, ms, xs, allow, None]
            if w > 1:
                yield ["seg", h, w - 1, mn, mx, ms, xs, allow, None]
    elif t == "choice":
        if len(p[1]) > 2:
            for v in p[1]:
                if v != p[2]:
                    yield ["choice", [x for x in p[1] if x != v], p[2]]


def shrink_candidates(sc):
    if sc["kind"] == "hashseed":
        for s in shrink_candidates(sc["inner"]):
            yield dict(sc, inner=s)
        return
    if sc["kind"] == "prng":
        if "k" in sc and sc["k"] > 2:
            c = dict(sc, k=sc["k"] - 1)
            if sc["test"] != "randint" or (c["b"] - c["a"] + 1) <= (1 << c["k"]):
                yield c
        if sc["test"] in ("randint", "real_randint"):
            if sc["a"] != 0:
                yield dict(sc, a=0, b=sc["b"] - sc["a"])
            if sc["b"] > sc["a"]:
                yield dict(sc, b=sc["a"] + (sc["b"] - sc["a"]) // 2)
                yield dict(sc, b=sc["b"] - 1)
        if "n" in sc and sc["n"] > 0:
            yield dict(sc, n=sc["n"] - 1)
        return
    for s in _shrink_pattern(sc["pattern"]):
        yield dict(sc, pattern=s)
    for mc in (1, 2, 3, 5, sc["max_calls"] // 2):
        if 1 <= mc < sc["max_calls"]:
            yield dict(sc, max_calls=mc)
    if sc["max_steps"] is None or sc["max_steps"] > 1:
        yield dict(sc, max_steps=1)
        if sc["max_steps"] and sc["max_steps"] > 2:
            yield dict(sc, max_steps=sc["max_steps"] // 2)
    for key in ("score", "uniqueness", "pretest", "clue_penalty"):
        if sc.get(key) and not (sc["solver"].get("shape") == "plain" and key in ("score", "uniqueness")):
            yield dict(sc, **{key: None})
    if sc["solve_initial"]:
        yield dict(sc, solve_initial=False)
    if sc["use_builder_pattern"]:
        yield dict(sc, use_builder_pattern=False)
    if sc["solver"]["type"] == "fake":
        s = sc["solver"]
        if s["shape"] not in ("vars", "plain"):
            yield dict(sc, solver=dict(s, shape="vars"))
        if s["cells"] > 2:
            yield dict(sc, solver=dict(s, cells=2))
        if s["p_sat"] != 1.0:
            yield dict(sc, solver=dict(s, p_sat=1.0))
    if sc["interfere"] != ["none", "consume"]:
        yield dict(sc, interfere=["none", "consume"])
    if sc["consume_n"] != [0, 1]:
        yield dict(sc, consume_n=[0, 1])
    for key in ("py_seed", "py_seed2", "det_seed"):
        if sc.get(key):
            yield dict(sc, **{key: 0 if key != "py_seed2" else 1})
