#!/bin/bash
# thorough_all.sh [seed]: the thorough tier of every registered check, in sequence
seed=${1:-0}
for p in C01 C02 C03 C18 C19 C20; do
  VERIF_SEED=$seed /venv/bin/python sim/cli.py check $p --tier thorough 2>&1 | tail -4
done
