#!/usr/bin/env python3
"""intake_seeded.py <worktree> <seeded-id> <property> [--tier quick] [--keep]

Confirms a sub-agent's seeded change independently and files it under /verif/seeded/<id>/:
  1. patch.diff = `git diff -- cspuz` of the worktree (source changes only)
  2. in a scratch copy of /repo (outside /repo and /verif): the patch applies, the pinned test
     suite gives the baseline counts, DEMO/demo.py fails with the patch and passes without it
  3. the registered check for the property is run against the patched copy (VERIF_REPO)
  4. meta.json records all of that; the scratch copy is removed.
"""
import json
import os
import shutil
import subprocess
import sys
import tempfile
import time

PY = "/venv/bin/python"


def sh(cmd, cwd=None, env=None, timeout=3600):
    p = subprocess.run(cmd, cwd=cwd, env=env, shell=isinstance(cmd, str), stdout=subprocess.PIPE, stderr=subprocess.STDOUT, timeout=timeout)
    return p.returncode, p.stdout.decode("utf-8", "replace")


def copy_repo(dst):
    shutil.copytree("/repo", dst, ignore=shutil.ignore_patterns(".git", "__pycache__", "*.pyc", "docs", "*.egg-info"))


def tests(repo):
    code, out = sh(f"{PY} -m pytest -q -p no:cacheprovider -n 8 2>&1 | tail -1", cwd=repo)
    import re

    line = out.strip().split("\n")[-1]
    m = re.findall(r"(\d+) (failed|passed|error|errors)", line)
    return ", ".join(f"{n} {k}" for n, k in m) or line


def main():
    wt, sid, prop = sys.argv[1:4]
    tier = "quick"
    if "--tier" in sys.argv:
        tier = sys.argv[sys.argv.index("--tier") + 1]
    dst = os.path.join("/verif/seeded", sid)
    os.makedirs(dst, exist_ok=True)
    demo_name = "DEMO"
    if "--demo" in sys.argv:
        demo_name = sys.argv[sys.argv.index("--demo") + 1]
    if "--diff" in sys.argv:
        # the change is given as a patch file in the worktree (tree is clean): apply it for the duration
        diff = open(os.path.join(wt, sys.argv[sys.argv.index("--diff") + 1])).read()
        sh(["git", "-C", wt, "checkout", "--", "."])
        open(os.path.join(dst, "patch.diff"), "w").write(diff)
        rc, ro = sh(["git", "-C", wt, "apply", os.path.join(dst, "patch.diff")])
        if rc != 0:
            sys.exit("patch file does not apply in the worktree: " + ro)
    else:
        code, diff = sh(["git", "-C", wt, "diff", "--", "cspuz"])
        if not diff.strip():
            sys.exit("empty diff")
        open(os.path.join(dst, "patch.diff"), "w").write(diff)
    demo_src = os.path.join(wt, demo_name)
    if os.path.isdir(demo_src):
        for f in os.listdir(demo_src):
            if os.path.isfile(os.path.join(demo_src, f)):
                shutil.copy(os.path.join(demo_src, f), os.path.join(dst, f))
    scratch = tempfile.mkdtemp(prefix="seeded-", dir="/tmp")
    meta = {"id": sid, "property": prop, "properties": [prop], "origin": "independent sub-agent given only the property text and a scratch worktree", "ran": {}}
    try:
        clean = os.path.join(scratch, "clean")
        patched = os.path.join(scratch, "patched")
        copy_repo(clean)
        copy_repo(patched)
        code, out = sh(["patch", "-p1", "-s", "-i", os.path.join(dst, "patch.diff")], cwd=patched)
        if code != 0:
            sys.exit("patch does not apply: " + out)
        for r in (clean, patched):
            if os.path.isdir(demo_src):
                shutil.copytree(demo_src, os.path.join(r, demo_name))
        meta["ran"]["tests_clean"] = tests(clean)
        meta["ran"]["tests_patched"] = tests(patched)
        # the demonstration is run in the sub-agent's own worktree (some demos assert that path):
        # with the change as left there, then with the change reversed, then restored
        pf = os.path.join(dst, "patch.diff")
        c2, o2 = sh([PY, demo_name + "/demo.py"], cwd=wt, timeout=900)
        rc, ro = sh(["git", "-C", wt, "apply", "-R", pf])
        if rc != 0:
            sys.exit("cannot reverse the patch in the worktree: " + ro)
        try:
            c1, o1 = sh([PY, demo_name + "/demo.py"], cwd=wt, timeout=900)
        finally:
            sh(["git", "-C", wt, "apply", pf])
        meta["ran"]["demo_clean_exit"] = c1
        meta["ran"]["demo_patched_exit"] = c2
        meta["ran"]["demo_patched_tail"] = o2[-400:]
        env = dict(os.environ, VERIF_REPO=patched, VERIF_NO_EVIDENCE="1")
        t0 = time.time()
        c3, o3 = sh([PY, "/verif/sim/cli.py", "check", prop, "--tier", tier], cwd="/verif", env=env, timeout=7200)
        kinds = sorted({ln.split("kind=")[1].split()[0] for ln in o3.split("\n") if ln.strip().startswith("kind=")})
        meta["ran"]["check_cmd"] = f"VERIF_REPO=<patched copy> {PY} sim/cli.py check {prop} --tier {tier}"
        meta["ran"]["check_exit"] = c3
        meta["ran"]["check_kinds"] = kinds
        meta["ran"]["check_wall_s"] = round(time.time() - t0, 1)
        meta["ran"]["check_tail"] = "\n".join(o3.strip().split("\n")[-12:])
        meta["confirmed"] = (
            meta["ran"]["tests_clean"] == meta["ran"]["tests_patched"] and c1 == 0 and c2 != 0
        )
        meta["caught_by_check"] = c3 == 1 and f"VIOLATION property={prop}" in o3
    finally:
        shutil.rmtree(scratch, ignore_errors=True)
    json.dump(meta, open(os.path.join(dst, "meta.json"), "w"), indent=1)
    print(json.dumps(meta, indent=1))


if __name__ == "__main__":
    main()
