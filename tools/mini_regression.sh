#!/bin/bash
# mini_regression.sh <props,comma>: noalarm + sensitivity (master seeds 0 and 7) restricted to the given properties,
# for re-checking a late change to those checks only
set -u
export VERIF_ONLY_PROPS=$1
echo "== noalarm ($1)"; /venv/bin/python sim/cli.py selftest noalarm 2>&1 | grep -E "^noalarm" | grep -v "quiet=True"
echo "== sensitivity seed 0 ($1)"; VERIF_SEED=0 /venv/bin/python sim/cli.py selftest sensitivity seeded/* mutants/* 2>&1 | grep -E "^sensitivity" | grep -v "caught=True"
echo "== sensitivity seed 7, seeded only ($1)"; VERIF_SEED=7 /venv/bin/python sim/cli.py selftest sensitivity seeded/* 2>&1 | grep -E "^sensitivity" | grep -v "caught=True"
echo "== soak ($1)"; for seed in 30 31 32 33 34 35; do for p in ${1//,/ }; do out=$(VERIF_SEED=$seed VERIF_NO_EVIDENCE=1 /venv/bin/python sim/cli.py check $p --tier quick 2>&1); code=$?; [ $code -ne 0 ] && echo "seed=$seed $p exit=$code $(echo "$out" | tail -5)"; done; done
echo "== done"
