#!/bin/bash
# soak_seeds.sh <first> <last> [tier]: every registered check under many VERIF_SEED values on the unchanged tree
tier=${3:-quick}
bad=0
for seed in $(seq $1 $2); do
  for p in C01 C02 C03 C18 C19 C20; do
    out=$(VERIF_SEED=$seed VERIF_NO_EVIDENCE=1 /venv/bin/python sim/cli.py check $p --tier $tier 2>&1)
    code=$?
    echo "seed=$seed $p exit=$code $(echo "$out" | tail -1)"
    if [ $code -ne 0 ]; then bad=$((bad+1)); echo "$out" | tail -20; fi
  done
done
echo "soak finished: non-zero exits = $bad"
