#!/usr/bin/env python3
"""mkmutant.py <name> <props,comma> <file-in-repo> <old> <new> [--count N]
Creates /verif/mutants/<name>/{patch.diff,meta.json}: a small hand-written edit of /repo used by
`cli.py selftest sensitivity`.  The patch is built against /repo's working tree without touching it."""
import json, os, subprocess, sys, tempfile, shutil

name, props, rel, old, new = sys.argv[1:6]
old = old.encode().decode("unicode_escape")
new = new.encode().decode("unicode_escape")
src = open(os.path.join("/repo", rel)).read()
n = src.count(old)
which = None
if "--nth" in sys.argv:
    which = int(sys.argv[sys.argv.index("--nth") + 1])
if n == 0:
    sys.exit(f"pattern not found in {rel}")
if n > 1 and which is None:
    sys.exit(f"pattern occurs {n} times in {rel}; use --nth k")
if which is None:
    out = src.replace(old, new)
else:
    parts = src.split(old)
    out = old.join(parts[: which + 1]) + new + old.join(parts[which + 1 :])
d = tempfile.mkdtemp()
try:
    a = os.path.join(d, "a", rel); b = os.path.join(d, "b", rel)
    os.makedirs(os.path.dirname(a)); os.makedirs(os.path.dirname(b))
    open(a, "w").write(src); open(b, "w").write(out)
    p = subprocess.run(["diff", "-u", "--label", "a/" + rel, "--label", "b/" + rel, a, b], stdout=subprocess.PIPE)
    diff = p.stdout.decode()
finally:
    shutil.rmtree(d)
dst = os.path.join("/verif/mutants", name)
os.makedirs(dst, exist_ok=True)
open(os.path.join(dst, "patch.diff"), "w").write(diff)
json.dump({"properties": props.split(","), "origin": "hand-written mutant", "file": rel}, open(os.path.join(dst, "meta.json"), "w"), indent=1)
print(diff)
