#!/bin/bash
# final_regression.sh: the part of full_regression.sh that is re-run on the final commit after a separate noalarm sweep
#  1. every seeded change / mutant caught at master seed 0, every seeded change also at master seed 7
#  2. quick checks quiet under twelve more master seeds on the unchanged tree   3. determinism   4. repaired defects stay repaired
set -u
echo "== sensitivity seed 0"; VERIF_SEED=0 /venv/bin/python sim/cli.py selftest sensitivity 2>&1 | grep -E "^sensitivity" | grep -v "caught=True"
echo "== sensitivity seed 7 (seeded)"; VERIF_SEED=7 /venv/bin/python sim/cli.py selftest sensitivity seeded/* 2>&1 | grep -E "^sensitivity" | grep -v "caught=True"
echo "== soak"; tools/soak_seeds.sh 30 41 quick | grep -v "exit=0"
echo "== determinism"; VERIF_SEED=9 /venv/bin/python sim/cli.py selftest determinism --seeds 2000 2>&1 | grep -E "^determinism|NONDET"
echo "== fixed"; /venv/bin/python sim/cli.py selftest fixed 2>&1 | tail -6
echo "== done"
