#!/bin/bash
# all_regression.sh: noalarm sweep over the whole property-preserving corpus, then final_regression.sh
set -u
echo "== noalarm"; /venv/bin/python sim/cli.py selftest noalarm 2>&1 | grep -E "^noalarm" | grep -v "quiet=True"
tools/final_regression.sh
