#!/usr/bin/env python3
"""Regenerates the tables of DESIGN.md section 12.1 / 12.3 from seeded/*/meta.json and legit/*/meta.json
(between the markers <!-- seeded-table --> ... <!-- /seeded-table --> and <!-- legit-table --> ...)."""
import json, os, re

V = "/verif"
rows = []
for d in sorted(os.listdir(f"{V}/seeded")):
    m = json.load(open(f"{V}/seeded/{d}/meta.json"))
    kinds = ", ".join(k.split("/")[1] for k in m["ran"]["check_kinds"])
    rows.append(f"| `{d}` | {m['property']} | {m.get('change','')} | {m.get('needs_to_manifest','')} | {kinds} | {m['ran']['check_wall_s']} |")
seeded = "\n".join(["| id | property | change | needs, in order to manifest | violation kinds reported | quick wall (s) |",
                    "|----|----------|--------|-----------------------------|--------------------------|----------------|"] + rows)
lrows = []
for d in sorted(os.listdir(f"{V}/legit")):
    m = json.load(open(f"{V}/legit/{d}/meta.json"))
    desc = " ".join(m.get("description", "").split())
    desc = re.sub(r"^#+\s*", "", desc)[:230]
    lrows.append(f"| `{d}` | {', '.join(m['properties'])} | {desc}… |")
legit = "\n".join(["| id | checked against | what it changes (from the author's note) |", "|----|-----------------|------------------------------------------|"] + lrows)
s = open(f"{V}/DESIGN.md").read()
def put(s, tag, body):
    a, b = f"<!-- {tag} -->", f"<!-- /{tag} -->"
    if a not in s:
        raise SystemExit(f"marker {a} missing")
    i, j = s.index(a) + len(a), s.index(b)
    return s[:i] + "\n" + body + "\n" + s[j:]
s = put(s, "seeded-table", seeded)
s = put(s, "legit-table", legit)
open(f"{V}/DESIGN.md", "w").write(s)
print(len(rows), "seeded,", len(lrows), "legit")
