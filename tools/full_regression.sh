#!/bin/bash
# full_regression.sh: everything that must hold before a commit is trusted, in sequence (hours)
#  1. no false alarms on the property-preserving corpus   2. every seeded change / mutant caught (two master seeds)
#  3. quick checks quiet under many master seeds on the unchanged tree
set -u
echo "== noalarm"; /venv/bin/python sim/cli.py selftest noalarm 2>&1 | grep -E "^noalarm" 
echo "== sensitivity seed 0"; VERIF_SEED=0 /venv/bin/python sim/cli.py selftest sensitivity 2>&1 | grep -E "^sensitivity" | grep -v "caught=True"
echo "== sensitivity seed 7"; VERIF_SEED=7 /venv/bin/python sim/cli.py selftest sensitivity 2>&1 | grep -E "^sensitivity" | grep -v "caught=True"
echo "== soak"; tools/soak_seeds.sh 30 45 quick | grep -v "exit=0"
echo "== done"
