#!/usr/bin/env python3
"""intake_legit.py <worktree> <property>: file every legit-i.diff of the worktree under /verif/legit/<property>-<i>/
after confirming that it applies to /repo's tree and leaves the pinned suite unchanged."""
import json, os, shutil, subprocess, sys, tempfile, re

wt, prop = sys.argv[1:3]
tag = sys.argv[3] if len(sys.argv) > 3 else ""
for i in range(1, 9):
    diff = os.path.join(wt, f"legit-{i}.diff")
    if not os.path.exists(diff) or not open(diff).read().strip():
        continue
    scratch = tempfile.mkdtemp(prefix="legit-", dir="/tmp")
    try:
        repo = os.path.join(scratch, "repo")
        shutil.copytree("/repo", repo, ignore=shutil.ignore_patterns(".git", "__pycache__", "*.pyc", "docs", "*.egg-info"))
        p = subprocess.run(["git", "apply", "--unsafe-paths", "--directory", repo, diff], cwd="/", stdout=subprocess.PIPE, stderr=subprocess.STDOUT)
        if p.returncode != 0:
            p = subprocess.run(["patch", "-p1", "-s", "-d", repo, "-i", diff], stdout=subprocess.PIPE, stderr=subprocess.STDOUT)
        if p.returncode != 0:
            print(f"legit-{i}: does not apply: {p.stdout.decode()[:200]}")
            continue
        t = subprocess.run("/venv/bin/python -m pytest -q -p no:cacheprovider -n 8 2>&1 | tail -1", shell=True, cwd=repo, stdout=subprocess.PIPE).stdout.decode()
        counts = ", ".join(f"{n} {k}" for n, k in re.findall(r"(\d+) (failed|passed|error|errors)", t))
        dst = f"/verif/legit/{prop}-{tag}{i}"
        os.makedirs(dst, exist_ok=True)
        shutil.copy(diff, os.path.join(dst, "patch.diff"))
        md = os.path.join(wt, f"legit-{i}.md")
        desc = open(md).read() if os.path.exists(md) else ""
        json.dump({"id": f"{prop}-{tag}{i}", "properties": [prop], "origin": "independent sub-agent asked for a property-preserving change", "description": desc, "tests": counts}, open(os.path.join(dst, "meta.json"), "w"), indent=1)
        print(f"legit-{i}: filed as {dst} tests: {counts}")
    finally:
        shutil.rmtree(scratch, ignore_errors=True)
